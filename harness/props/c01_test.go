package props

// C01 — token supply conservation: for every token, recorded total supply ==
// sum of balances over all accounts + amounts of sends not yet received, <= max supply,
// no negative balance; supply moves only through token-contract Issue / Mint / Burn receives.

import (
	"bytes"
	"fmt"
	"math/big"
	"testing"
	"time"

	"github.com/zenon-network/go-zenon/chain/genesis"
	"github.com/zenon-network/go-zenon/chain/nom"
	"github.com/zenon-network/go-zenon/common/types"
	"github.com/zenon-network/go-zenon/vm/embedded/definition"

	"verifharness/pbt"
	"verifharness/sim"
)

// genSpec draws a consistent genesis for history-based properties.
func genSpec(c *pbt.C) *sim.Spec {
	spec := sim.DefaultSpec(c.Int("spec.pillars", 2, 4), c.Int("spec.users", 3, 6))
	if c.Weighted("spec.sporks", 1, 4) == 1 {
		spec.ActiveSporks = uint64(c.Int("spec.sporkHeight", 1, 12))
	}
	// extra tokens owned by users, with balances
	nt := c.Weighted("spec.tokens", 2, 2, 1)
	for i := 0; i < nt; i++ {
		owner := sim.UserKey(i % len(spec.Users)).Address
		var zts types.ZenonTokenStandard
		copy(zts[:], types.NewHash([]byte(fmt.Sprintf("verif-token-%d", i))).Bytes()[:10])
		mintable := c.Bool("spec.tok.mintable")
		spec.Tokens = append(spec.Tokens, sim.TokenSpec{Zts: zts, Owner: owner, Name: fmt.Sprintf("GenTok%d", i), Symbol: fmt.Sprintf("GT%d", i),
			Max: big.NewInt(1 << 40), Mintable: mintable, Burnable: c.Bool("spec.tok.burnable")})
		for u := range spec.Users {
			if spec.Users[u].Extra == nil {
				spec.Users[u].Extra = map[int]int64{}
			}
			spec.Users[u].Extra[i] = int64(1000 * (u + 1))
		}
		if !mintable {
			// non-mintable tokens must have max == total
			total := int64(0)
			for u := range spec.Users {
				total += spec.Users[u].Extra[i]
			}
			spec.Tokens[i].Max = big.NewInt(total)
		}
	}
	// assets and pillar slots of the legacy network, claimable with secp256k1 keys the harness holds
	for i, n := 0, c.Weighted("spec.swapKeys", 2, 2, 1); i < n; i++ {
		spec.Swap = append(spec.Swap, sim.SwapSpec{Key: i, Znn: int64(c.Int("spec.swap.znn", 0, 3000)), Qsr: int64(c.Int("spec.swap.qsr", 0, 30000)),
			Pillars: uint8(c.Weighted("spec.swap.pillars", 2, 1, 1))})
	}
	// extra accounts get plasma through genesis fusions so that they can act once funded
	for i := 0; i < 3; i++ {
		spec.Fusions = append(spec.Fusions, sim.FusionSpec{Owner: sim.UserKey(0).Address, Beneficiary: sim.ExtraKey(i).Address, Amount: 2000,
			Id: types.NewHash([]byte(fmt.Sprintf("extra-fusion-%d", i)))})
	}
	return spec
}

func genWorldOpts(c *pbt.C) sim.WorldOpts {
	return sim.WorldOpts{FastLocks: true, EpochDuration: time.Duration([]int{600, 1200, 3600}[c.Pick("epoch", 3)]) * time.Second}
}

func supplies(h *sim.Hist) map[types.ZenonTokenStandard]*big.Int {
	out := map[types.ZenonTokenStandard]*big.Int{}
	for _, t := range h.TokenList() {
		out[t.TokenStandard] = new(big.Int).Set(t.TotalSupply)
	}
	return out
}

func TestC01(t *testing.T) {
	pbt.Check(t, "C01", func(c *pbt.C) {
		spec, opts := genSpec(c), genWorldOpts(c)
		bridgeWorld := c.Weighted("c01.bridgeWorld", 3, 1) == 1
		if bridgeWorld {
			spec.ActiveSporks = 2
			opts.Bridge = true
			for len(spec.Users) < 5 {
				spec.Users = append(spec.Users, sim.UserSpec{Znn: 9000, Qsr: 90000})
			}
		}
		// a genesis token declared with more supply than its maximum: the genesis validator must refuse it (a
		// refused configuration starts no network); if it accepts, the bound is broken from the first momentum on
		if len(spec.Tokens) > 0 && c.Weighted("c01.genesisOverMax", 6, 1) == 1 {
			i := c.Pick("c01.genesisOverMax.token", len(spec.Tokens))
			total := int64(0)
			for u := range spec.Users {
				total += spec.Users[u].Extra[i]
			}
			spec.Tokens[i].Max = big.NewInt(total - int64(c.Int("c01.genesisOverMax.by", 1, 500)))
			if err := genesis.CheckGenesis(spec.Config()); err != nil {
				c.Class("genesis-over-max-refused")
				c.Note("genesis with total supply above max supply refused: %v", err)
				return
			}
			c.Class("genesis-over-max-accepted")
		}
		// the identity starts at the genesis momentum: a configuration whose balances add up to less or more than a
		// declared supply must be refused
		if c.Weighted("c01.genesisUnbalanced", 8, 1) == 1 {
			cfg := spec.Config()
			tk := cfg.TokenConfig.Tokens[c.Pick("c01.genesisUnbalanced.token", len(cfg.TokenConfig.Tokens))]
			d := big.NewInt(int64(c.Int("c01.genesisUnbalanced.by", 1, 1000)))
			if c.Bool("c01.genesisUnbalanced.less") && tk.TotalSupply.Cmp(d) > 0 {
				d.Neg(d)
			}
			tk.TotalSupply = new(big.Int).Add(tk.TotalSupply, d)
			if tk.MaxSupply != nil && tk.MaxSupply.Cmp(tk.TotalSupply) < 0 {
				tk.MaxSupply = new(big.Int).Set(tk.TotalSupply)
			}
			if err := genesis.CheckGenesis(cfg); err == nil {
				c.Failf("C01/genesis-unbalanced-accepted", "the genesis validator accepts a configuration declaring a supply of %v for %s while the balances add up to %v",
					tk.TotalSupply, tk.TokenSymbol, new(big.Int).Sub(tk.TotalSupply, d))
			}
			c.Class("genesis-unbalanced-refused")
		}
		h := sim.NewHist(c, spec, opts)
		h.Intents = sim.DefaultIntents()
		if bridgeWorld {
			c.Class("bridge-world")
			_ = sim.BridgeScript(h, c.Int("c01.wraps", 0, 4), c.Int("c01.unwraps", 0, 3))
			_ = sim.LiquidityScript(h)
			h.Intents = append(h.Intents, sim.BridgeIntents()...)
			h.Intents = append(h.Intents, sim.BridgeIntents()...)
		}
		if msg, _, _, err := sim.CheckSupply(h.A); err != nil {
			panic(err)
		} else if msg != "" {
			c.Failf("C01/genesis", "genesis state: %s", msg)
		}
		prev := supplies(h)
		tokenHeight := uint64(0)
		sawRefund, sawSupplyOp, sawInFlight := false, false, false
		selIssue := definition.ABIToken.Methods[definition.IssueMethodName].Id()
		selMint := definition.ABIToken.Methods[definition.MintMethodName].Id()
		selBurn := definition.ABIToken.Methods[definition.BurnMethodName].Id()
		seenRecv := map[types.Hash]bool{}
		rebased := false
		inv := func() {
			if h.Dead {
				return
			}
			msg, _, l, err := sim.CheckSupply(h.A)
			if err != nil {
				c.Failf("C01/scan-error", "ledger scan failed: %v", err)
			}
			if msg != "" {
				c.Failf("C01/identity", "at momentum %d (+%d pooled blocks): %s", h.A.Height(), len(l.Pooled), msg)
			}
			if len(l.InFlight()) > 0 {
				sawInFlight = true
			}
			// supply may move only through token-contract receives of Issue / Mint / Burn
			cur := supplies(h)
			changed := false
			for z, v := range cur {
				if p, ok := prev[z]; !ok || p.Cmp(v) != 0 {
					changed = true
				}
			}
			supplyOps := 0
			blocks := l.Blocks[types.TokenContract]
			for _, b := range blocks {
				if b.Height <= tokenHeight || b.BlockType != nom.BlockTypeContractReceive {
					continue
				}
				if s := l.Sends[b.FromBlockHash]; s != nil && len(s.Data) >= 4 {
					sel := s.Data[:4]
					if bytes.Equal(sel, selIssue) || bytes.Equal(sel, selMint) || bytes.Equal(sel, selBurn) {
						supplyOps++
					}
				}
			}
			if len(blocks) > 0 {
				tokenHeight = blocks[len(blocks)-1].Height
			}
			if rebased {
				// a momentum from elsewhere was inserted under the pool: pooled (never final) token-contract receives may
				// have been dropped with their effect; the step clause starts again from this state
				rebased, changed, supplyOps = false, false, 0
			}
			if changed && supplyOps == 0 {
				c.Failf("C01/supply-moved", "total supply changed without an Issue/Mint/Burn receive: before %v after %v", prev, cur)
			}
			if supplyOps > 0 && changed {
				sawSupplyOp = true
				c.Class("supply-changed-by-token-op")
			}
			prev = cur
			// classification: refunds
			for _, ct := range sim.ContractList {
				for _, b := range l.Blocks[ct] {
					if b.BlockType != nom.BlockTypeContractReceive || seenRecv[b.Hash] {
						continue
					}
					seenRecv[b.Hash] = true
					s := l.Sends[b.FromBlockHash]
					if s != nil && s.Amount.Sign() > 0 && len(b.DescendantBlocks) == 1 {
						d := b.DescendantBlocks[0]
						if d.ToAddress == s.Address && d.Amount.Cmp(s.Amount) == 0 && d.TokenStandard == s.TokenStandard {
							sawRefund = true
							c.Class("refunded-call")
						}
					}
				}
			}
		}
		if c.Weighted("c01.ecoWorld", 2, 1) == 1 {
			c.Class("ecosystem-world")
			if _, err := sim.EcosystemScript(h); err != nil {
				c.Note("ecosystem script stopped: %v", err)
			}
			inv()
		}
		// a transfer published through the JSON-RPC interface with its amount negated (the signature covers the
		// magnitude only): whatever the node decides, the identity must hold afterwards
		rpcSignedAmount := func() {
			from := h.Users[c.Pick("neg.from", len(h.Users))]
			kp := h.W.Keys.ByAddr[from]
			amt := big.NewInt(int64(c.Int("neg.amt", 1, 100000)))
			var tx *nom.AccountBlockTransaction
			var err error
			func() {
				defer func() {
					if r := recover(); r != nil {
						err = fmt.Errorf("%v", r)
					}
				}()
				tx, err = h.A.Sup.GenerateFromTemplate(&nom.AccountBlock{BlockType: nom.BlockTypeUserSend, Address: from, ToAddress: h.Users[c.Pick("neg.to", len(h.Users))],
					TokenStandard: []types.ZenonTokenStandard{types.ZnnTokenStandard, types.QsrTokenStandard}[c.Pick("neg.zts", 2)], Amount: amt}, kp.Signer)
			}()
			if err != nil || tx == nil {
				return
			}
			neg := tx.Block.Copy()
			neg.Amount = new(big.Int).Neg(neg.Amount)
			lb, err := sim.ViaPublishJSON(h.A, neg)
			if err != nil {
				return
			}
			if ntx, err := h.A.Sup.ApplyBlock(lb); err == nil {
				h.A.CreateAccountBlock(ntx)
				c.Class("negative-amount-accepted-over-rpc")
			}
		}
		// a momentum of another pillar's node that has not seen this node's unconfirmed blocks (contract receives and the
		// sends they generated included): the pool is rebuilt on top of it, the blocks are confirmed later
		var a2 *sim.Node
		var h2 *sim.Hist
		foreignMomentum := func() {
			if h.Dead {
				return
			}
			if a2 == nil {
				a2 = h.W.AddNode("A2", true)
				h2 = sim.NewHistOn(c, h.W, a2, h)
			}
			if a2.Height() < h.A.Height() {
				if _, err := a2.Bridge.InsertChain(h.A.Range(a2.Height()+1, h.A.Height())); err != nil {
					c.Note("second producer cannot follow: %v", err)
					return
				}
			}
			pooled := len(h.A.Chain.GetAllUncommittedAccountBlocks())
			if !h2.Produce(c.Weighted("foreign.skip", 5, 1)) {
				return
			}
			if _, err := h.A.Bridge.InsertChain(a2.Range(h.A.Height()+1, a2.Height())); err != nil {
				c.Note("momentum of the second producer refused: %v", err)
				return
			}
			h.Momentums++
			rebased = true
			c.Note("momentum %d by a second producer that knew none of the %d blocks pooled here", h.A.Height(), pooled)
			if pooled > 0 {
				c.Class("foreign-momentum-over-a-non-empty-pool")
			}
		}
		flow := sim.BridgeFlowIntents()
		c.Repeat(map[string]func(){
			"foreignMomentum": foreignMomentum,
			// request flow of the bridge (wraps of a bridge-owned token burn it, redeems mint it): skipped in other worlds
			"bridgeFlow": func() {
				if bridgeWorld {
					h.ActIntentOf(flow, "bridgeFlow")
				}
			},
			"rpcSignedAmount": rpcSignedAmount,
			"transfer":        h.ActTransfer,
			"receive":         h.ActReceive,
			"callABI":         h.ActCallABI,
			"callABI2":        h.ActCallABI,
			"intent":          h.ActIntent,
			"intent2":         h.ActIntent,
			"intent3":         h.ActIntent,
			"produce":         h.ActProduce,
			"produceLazy":     h.ActProduceLazy,
			"produce2":        h.ActProduce,
		}, inv)
		// drain: a few more momentums so that queued calls are received
		for i := 0; i < 3 && !h.Dead; i++ {
			h.Produce(0)
			inv()
		}
		if h.Dead {
			c.Class("aborted-by-C09-preflight")
			c.Excluded("C09-preflight-abort")
		}
		if h.Rejected > 0 {
			c.Class("has-rejected-blocks")
		}
		if sawInFlight {
			c.Class("in-flight-at-checkpoint")
		}
		if sawRefund && sawSupplyOp && sawInFlight {
			c.NonTrivial()
		}
		c.R.Count("accepted_blocks", h.Accepted)
		c.R.Count("rejected_blocks", h.Rejected)
		c.R.Count("momentums", h.Momentums)
	})
}

// The identity holds on a node that abandoned a branch for a longer one (whatever its pool kept, whatever it produces
// afterwards) as on a node that only saw the adopted branch.
func TestC01Reorg(t *testing.T) {
	pbt.Check(t, "C01", func(c *pbt.C) {
		reorgScenario(c, "C01", func(c *pbt.C, key string, b, cn *sim.Node) {
			for _, n := range []*sim.Node{b, cn} {
				msg, _, l, err := sim.CheckSupply(n)
				if err != nil {
					c.Failf("C01/scan-error", "ledger scan of %s failed: %v", n.Name, err)
				}
				if msg != "" {
					c.Failf("C01/identity", "on %s after a reorganisation, at momentum %d (+%d pooled blocks): %s", n.Name, n.Height(), len(l.Pooled), msg)
				}
			}
		})
	})
}
