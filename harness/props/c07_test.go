package props

// C07 — versioned store: a view at commit X shows exactly the state as of X.
// Reference model: one immutable map per version plus a frontier pointer.

import (
	"bytes"
	"encoding/hex"
	"fmt"
	"os"
	"sort"
	"sync"
	"sync/atomic"
	"testing"

	"github.com/syndtr/goleveldb/leveldb"

	"github.com/zenon-network/go-zenon/common/db"
	"github.com/zenon-network/go-zenon/common/types"

	"verifharness/pbt"
)

type c7commit struct {
	id, prev types.HashHeight
}

func (c *c7commit) Identifier() types.HashHeight { return c.id }
func (c *c7commit) Previous() types.HashHeight   { return c.prev }
func (c *c7commit) Serialize() ([]byte, error) {
	return []byte(fmt.Sprintf("commit-%d-%s", c.id.Height, c.id.Hash.String()[:8])), nil
}

type c7tx struct {
	c *c7commit
	p db.Patch
}

func (t *c7tx) GetCommits() []db.Commit { return []db.Commit{t.c} }
func (t *c7tx) StealChanges() db.Patch  { p := t.p; t.p = nil; return p }

type c7version struct {
	id    types.HashHeight
	state map[string][]byte // user keys only
}

type c7view struct {
	d        db.DB
	ver      types.HashHeight
	model    map[string][]byte // what this view must show (user keys)
	base     map[string][]byte // state when the view (root of its family) was opened
	wrote    map[string]bool
	frozen   bool // has descendants
	children []*c7view
	hist     bool // opened on a non-frontier commit
	later    map[string]bool
	afterRb  bool
	isRoot   bool
	name     string
}

func cloneState(m map[string][]byte) map[string][]byte {
	out := make(map[string][]byte, len(m))
	for k, v := range m {
		out[k] = v
	}
	return out
}

var c7alphabet = []byte{0x00, 0x01, 0x7f, 0xff}

func c7key(c *pbt.C, label string) []byte {
	n := c.Int(label+".len", 0, 3)
	k := []byte{byte(0x10 + c.Int(label+".p", 0, 1))}
	for i := 0; i < n; i++ {
		k = append(k, c7alphabet[c.Pick(label+".b", len(c7alphabet))])
	}
	return k
}

func c7val(c *pbt.C, label string) []byte {
	switch c.Weighted(label+".kind", 1, 6, 1) {
	case 0:
		return []byte{}
	case 1:
		return c.Bytes(label+".v", 1, 6)
	default:
		return []byte{0}
	}
}

type c7machine struct {
	c        *pbt.C
	useLdb   bool
	dir      string
	mgr      db.Manager
	chain    []*c7version // live chain, index 0 = first commit
	views    []*c7view
	dead     []types.HashHeight
	counter  int
	rolled   bool
	keysSeen map[string]bool
}

func (m *c7machine) frontierID() types.HashHeight {
	if len(m.chain) == 0 {
		return types.ZeroHashHeight
	}
	return m.chain[len(m.chain)-1].id
}
func (m *c7machine) stateAt(i int) map[string][]byte {
	if i < 0 {
		return map[string][]byte{}
	}
	return m.chain[i].state
}

func (m *c7machine) newID(height uint64) types.HashHeight {
	m.counter++
	return types.HashHeight{Height: height, Hash: types.NewHash([]byte(fmt.Sprintf("c7-%d-%d", height, m.counter)))}
}

// writes: random puts/deletes through d, mirrored into model.
func (m *c7machine) randomWrites(d db.DB, model map[string][]byte, label string, min int, wrote map[string]bool) int {
	n := m.c.Int(label+".n", min, 5)
	for i := 0; i < n; i++ {
		k := c7key(m.c, label+".k")
		m.keysSeen[string(k)] = true
		if wrote != nil {
			wrote[string(k)] = true
		}
		if m.c.Weighted(label+".op", 3, 1) == 0 {
			v := c7val(m.c, label)
			if err := d.Put(k, v); err != nil {
				m.c.Failf("C07/put-error", "Put: %v", err)
			}
			model[string(k)] = v
			m.c.Note("  put %x=%x", k, v)
			if len(v) == 0 {
				m.c.Class("empty-value")
			}
		} else {
			if err := d.Delete(k); err != nil {
				m.c.Failf("C07/delete-error", "Delete: %v", err)
			}
			delete(model, string(k))
			m.c.Note("  del %x", k)
		}
	}
	return n
}

// later marks, for every open historical view, the keys touched by a later commit.
func (m *c7machine) touched(before, after map[string][]byte) map[string]bool {
	t := map[string]bool{}
	for k, v := range after {
		if b, ok := before[k]; !ok || !bytes.Equal(b, v) {
			t[k] = true
		}
	}
	for k := range before {
		if _, ok := after[k]; !ok {
			t[k] = true
		}
	}
	return t
}

func (m *c7machine) commit(stale bool) {
	c := m.c
	var parent types.HashHeight
	var parentState map[string][]byte
	if !stale {
		parent = m.frontierID()
		parentState = m.stateAt(len(m.chain) - 1)
	} else {
		// stale parent: an older live version, the zero version, or a rolled-back id
		opts := len(m.chain) - 1 // indices 0..len-2, plus zero (-1) when chain non-empty
		if len(m.chain) == 0 && len(m.dead) == 0 {
			return
		}
		useDead := len(m.dead) > 0 && (len(m.chain) == 0 || c.Bool("stale.dead"))
		if useDead {
			parent = m.dead[c.Pick("stale.deadidx", len(m.dead))]
			parentState = nil
		} else {
			i := c.Int("stale.idx", -1, opts-1)
			if i >= 0 {
				parent = m.chain[i].id
			} else {
				parent = types.ZeroHashHeight
			}
			parentState = m.stateAt(i)
		}
	}
	view := m.mgr.Get(parent)
	if view == nil {
		if parentState != nil || !stale {
			c.Failf("C07/get-nil", "Get(%v) returned nil for a live version", parent)
		}
		c.Note("commit on dead parent %v: no view (refused)", parent)
		return
	}
	if stale && parentState == nil {
		c.Failf("C07/dead-view", "Get(%v) returned a view for a rolled-back version", parent)
	}
	id := m.newID(parent.Height + 1)
	c.Note("commit %d/%s on parent %d/%s stale=%v", id.Height, id.Hash.String()[:6], parent.Height, parent.Hash.String()[:6], stale)
	model := cloneState(parentState)
	m.randomWrites(view, model, "commit", 1, nil)
	patch, err := view.Changes()
	if err != nil {
		c.Failf("C07/changes-error", "Changes: %v", err)
	}
	err = m.mgr.Add(&c7tx{c: &c7commit{id: id, prev: parent}, p: patch})
	if !stale {
		if err != nil {
			c.Failf("C07/add-error", "commit on the frontier refused: %v", err)
		}
		old := m.stateAt(len(m.chain) - 1)
		t := m.touched(old, model)
		for _, v := range m.views {
			for k := range t {
				v.later[k] = true
			}
		}
		m.chain = append(m.chain, &c7version{id: id, state: model})
		return
	}
	c.Class("stale-parent-commit")
	c.NonTrivial()
	if err == nil {
		if !c.Failf("C07/stale-parent-no-error", "commit %v on stale parent %v (frontier %v) returned no error", id, parent, m.frontierID()) {
			panic("unreachable")
		}
	}
	// whatever was reported, the store must be unchanged
	m.checkWholeStore("after stale-parent commit")
}

func (m *c7machine) rollback() {
	c := m.c
	if len(m.chain) == 0 {
		return
	}
	c.Note("rollback of %d", m.frontierID().Height)
	if err := m.mgr.Pop(); err != nil {
		c.Failf("C07/pop-error", "Pop: %v", err)
	}
	last := m.chain[len(m.chain)-1]
	m.dead = append(m.dead, last.id)
	m.chain = m.chain[:len(m.chain)-1]
	m.rolled = true
	c.Class("rollback")
	for _, v := range m.views {
		v.afterRb = true
	}
	if got := db.GetFrontierIdentifier(m.mgr.Frontier()); got != m.frontierID() {
		c.Failf("C07/frontier-after-pop", "frontier after rollback = %v, model %v", got, m.frontierID())
	}
}

func (m *c7machine) open() *c7view {
	c := m.c
	i := c.Int("open.idx", -1, len(m.chain)-1)
	var id types.HashHeight
	if i >= 0 {
		id = m.chain[i].id
	}
	var d db.DB
	how := "Get"
	if i == len(m.chain)-1 && c.Bool("open.viaFrontier") {
		d = m.mgr.Frontier()
		how = "Frontier"
	} else {
		d = m.mgr.Get(id)
	}
	if d == nil {
		c.Failf("C07/get-nil", "Get(%v) returned nil for a live version", id)
	}
	st := m.stateAt(i)
	v := &c7view{d: d, ver: id, model: cloneState(st), base: st, wrote: map[string]bool{}, hist: i != len(m.chain)-1,
		later: map[string]bool{}, afterRb: m.rolled, isRoot: true, name: fmt.Sprintf("v%d@%d", len(m.views), id.Height)}
	c.Note("open %s via %s (frontier %d)", v.name, how, m.frontierID().Height)
	if v.hist {
		c.Class("historical-view")
	}
	m.views = append(m.views, v)
	if len(m.views) > 12 {
		m.views = m.views[1:]
	}
	return v
}

func (m *c7machine) pickView(label string) *c7view {
	if len(m.views) == 0 || m.c.Weighted(label+".fresh", 3, 1) == 1 {
		return m.open()
	}
	return m.views[m.c.Pick(label, len(m.views))]
}

func (m *c7machine) someKey(label string) []byte {
	c := m.c
	if len(m.keysSeen) > 0 && c.Weighted(label+".seen", 1, 4) == 1 {
		keys := make([]string, 0, len(m.keysSeen))
		for k := range m.keysSeen {
			keys = append(keys, k)
		}
		sort.Strings(keys)
		return []byte(keys[c.Pick(label+".i", len(keys))])
	}
	return c7key(c, label)
}

func (m *c7machine) noteNonTrivialRead(v *c7view, k []byte) {
	if (v.hist || v.afterRb) && (v.later[string(k)] || v.afterRb) {
		m.c.NonTrivial()
		if v.later[string(k)] {
			m.c.Class("read-of-later-changed-key")
		}
		if v.afterRb {
			m.c.Class("read-after-rollback")
		}
	}
}

func (m *c7machine) read() {
	c := m.c
	v := m.pickView("read.view")
	k := m.someKey("read.k")
	d := v.d
	rel := k
	if c.Weighted("read.subset", 4, 1) == 1 {
		d = v.d.Subset(k[:1])
		rel = k[1:]
	}
	want, present := v.model[string(k)]
	got, err := d.Get(rel)
	has, herr := d.Has(rel)
	c.Note("read %s key %x -> %x,%v has=%v (model %x,%v)", v.name, k, got, err, has, want, present)
	m.noteNonTrivialRead(v, k)
	if herr != nil {
		c.Failf("C07/has-error", "Has(%x) on %s: %v", k, v.name, herr)
	}
	if present {
		if err != nil || !bytes.Equal(got, want) {
			c.Failf("C07/get-mismatch", "view %s key %x: Get=(%x,%v), state as of that commit has %x", v.name, k, got, err, want)
		}
		if !has {
			c.Failf("C07/has-mismatch", "view %s key %x: Has=false but key exists as of that commit", v.name, k)
		}
	} else {
		if err != leveldb.ErrNotFound {
			c.Failf("C07/get-absent", "view %s key %x: Get=(%x,%v) but the key does not exist as of that commit", v.name, k, got, err)
		}
		if has {
			c.Failf("C07/has-absent", "view %s key %x: Has=true but the key does not exist as of that commit", v.name, k)
		}
	}
}

func modelScan(model map[string][]byte, prefix []byte) [][2][]byte {
	var keys []string
	for k := range model {
		if bytes.HasPrefix([]byte(k), prefix) {
			keys = append(keys, k)
		}
	}
	sort.Strings(keys)
	out := make([][2][]byte, 0, len(keys))
	for _, k := range keys {
		out = append(out, [2][]byte{[]byte(k), model[k]})
	}
	return out
}

func realScan(d db.DB, prefix []byte) ([][2][]byte, error) {
	it := d.NewIterator(prefix)
	defer it.Release()
	var out [][2][]byte
	for it.Next() {
		if it.Value() == nil {
			// a deleted key surfaced as an entry: callers that parse the value crash on it
			return nil, errTombstone
		}
		k := append([]byte{}, it.Key()...)
		v := append([]byte{}, it.Value()...)
		out = append(out, [2][]byte{k, v})
	}
	return out, it.Error()
}

var errTombstone = fmt.Errorf("scan surfaced a deleted key as an entry with a nil value")

func fmtScan(s [][2][]byte) string {
	var b bytes.Buffer
	for _, kv := range s {
		fmt.Fprintf(&b, "%x=%x ", kv[0], kv[1])
	}
	return b.String()
}

// compareScan checks got against the model, tolerating exactly the known empty-value
// omission on views that are not the plain frontier when that finding is listed.
func (m *c7machine) compareScan(v *c7view, prefix []byte, got [][2][]byte, model map[string][]byte, what string) {
	c := m.c
	want := modelScan(model, prefix)
	userGot := got[:0:0]
	for _, kv := range got {
		if len(kv[0]) > 0 && kv[0][0] >= 0x10 || len(prefix) > 0 {
			userGot = append(userGot, kv)
		}
	}
	if len(prefix) == 0 {
		w := want[:0:0]
		for _, kv := range want {
			if kv[0][0] >= 0x10 {
				w = append(w, kv)
			}
		}
		want = w
	}
	eq := func(a, b [][2][]byte) bool {
		if len(a) != len(b) {
			return false
		}
		for i := range a {
			if !bytes.Equal(a[i][0], b[i][0]) || !bytes.Equal(a[i][1], b[i][1]) {
				return false
			}
		}
		return true
	}
	if eq(userGot, want) {
		return
	}
	// known finding: keys stored with an empty value are skipped by scans on layered views
	if c.Known("C07/empty-value-scan") {
		w2 := want[:0:0]
		for _, kv := range want {
			if len(kv[1]) != 0 {
				w2 = append(w2, kv)
			}
		}
		g2 := userGot[:0:0]
		for _, kv := range userGot {
			if len(kv[1]) != 0 {
				g2 = append(g2, kv)
			}
		}
		if eq(g2, w2) {
			// every difference is an omitted (never an invented) empty-valued key
			gotSet := map[string]bool{}
			for _, kv := range userGot {
				gotSet[string(kv[0])] = true
			}
			ok := true
			for _, kv := range userGot {
				if len(kv[1]) == 0 {
					if mv, present := model[string(kv[0])]; !present || len(mv) != 0 {
						ok = false
					}
				}
			}
			if ok {
				c.KnownHit("C07/empty-value-scan")
				return
			}
		}
	}
	key := "C07/scan-mismatch"
	onlyEmpty := true
	wm := map[string][]byte{}
	for _, kv := range want {
		wm[string(kv[0])] = kv[1]
	}
	gm := map[string][]byte{}
	for _, kv := range userGot {
		gm[string(kv[0])] = kv[1]
	}
	for k, wv := range wm {
		gv, ok := gm[k]
		if ok && bytes.Equal(gv, wv) {
			continue
		}
		if !(len(wv) == 0 && !ok) {
			onlyEmpty = false
		}
	}
	for k := range gm {
		if _, ok := wm[k]; !ok {
			onlyEmpty = false
		}
	}
	if onlyEmpty {
		key = "C07/empty-value-scan"
	}
	c.Failf(key, "%s: scan of %s prefix %x = [%s], state as of that commit = [%s]", what, v.name, prefix, fmtScan(userGot), fmtScan(want))
}

func (m *c7machine) scan() {
	c := m.c
	v := m.pickView("scan.view")
	var prefix []byte
	switch c.Weighted("scan.kind", 2, 3, 2) {
	case 0:
		prefix = []byte{}
	case 1:
		prefix = []byte{byte(0x10 + c.Int("scan.p", 0, 1))}
	default:
		k := m.someKey("scan.k")
		prefix = k[:c.Int("scan.plen", 1, len(k))]
	}
	d := v.d
	rel := prefix
	viaSubset := false
	if len(prefix) > 0 && c.Weighted("scan.subset", 4, 1) == 1 {
		d = v.d.Subset(prefix[:1])
		rel = prefix[1:]
		viaSubset = true
	}
	got, err := realScan(d, rel)
	if err != nil {
		c.Failf("C07/scan-error", "iterator error on %s: %v", v.name, err)
	}
	if viaSubset {
		for i := range got {
			got[i][0] = append([]byte{prefix[0]}, got[i][0]...)
		}
	}
	for i := 1; i < len(got); i++ {
		if bytes.Compare(got[i-1][0], got[i][0]) >= 0 {
			c.Failf("C07/scan-order", "scan of %s prefix %x not strictly ordered: %s", v.name, prefix, fmtScan(got))
		}
	}
	c.Note("scan %s prefix %x -> %d entries", v.name, prefix, len(got))
	if v.hist || v.afterRb {
		for k := range v.later {
			if bytes.HasPrefix([]byte(k), prefix) {
				m.noteNonTrivialRead(v, []byte(k))
				break
			}
		}
		if v.afterRb {
			c.NonTrivial()
			c.Class("read-after-rollback")
		}
	}
	m.compareScan(v, prefix, got, v.model, "scan")
}

func (m *c7machine) writeView() {
	c := m.c
	var cands []*c7view
	for _, v := range m.views {
		// a view that has descendants is written less often (the node itself never does it); what is written through it
		// is visible to its descendants - created before or after the write - unless they wrote the key themselves
		if !v.frozen || c.Weighted("write.parentOfSnapshots", 2, 1) == 1 {
			cands = append(cands, v)
		}
	}
	var v *c7view
	if len(cands) == 0 || c.Weighted("write.fresh", 3, 1) == 1 {
		v = m.open()
	} else {
		v = cands[c.Pick("write.view", len(cands))]
	}
	c.Note("write through %s", v.name)
	c.Class("write-through-view")
	if v.frozen {
		c.Class("write-through-a-view-that-has-snapshots")
	}
	before := cloneState(v.model)
	defer func() { c7propagate(v, before) }()
	if c.Weighted("write.viaApply", 3, 1) == 1 {
		p := db.NewPatch()
		n := c.Int("apply.n", 1, 4)
		for i := 0; i < n; i++ {
			k := c7key(c, "apply.k")
			m.keysSeen[string(k)] = true
			if c.Weighted("apply.op", 3, 1) == 0 {
				val := c7val(c, "apply")
				p.Put(k, val)
				v.model[string(k)] = val
				v.wrote[string(k)] = true
				c.Note("  apply put %x=%x", k, val)
			} else {
				p.Delete(k)
				delete(v.model, string(k))
				v.wrote[string(k)] = true
				c.Note("  apply del %x", k)
			}
		}
		if err := v.d.Apply(p); err != nil {
			c.Failf("C07/apply-error", "Apply: %v", err)
		}
	} else {
		m.randomWrites(v.d, v.model, "write", 1, v.wrote)
	}
	m.checkChanges(v)
}

// checkChanges: the change set reported by a root view replays onto the state it was opened
// on to exactly the state the view shows.
func (m *c7machine) checkChanges(v *c7view) {
	c := m.c
	if !v.isRoot {
		return
	}
	p, err := v.d.Changes()
	if err != nil {
		c.Failf("C07/changes-error", "Changes: %v", err)
	}
	st := cloneState(v.base)
	r := &c7replayer{st: st}
	if err := p.Replay(r); err != nil {
		c.Failf("C07/changes-error", "Replay: %v", err)
	}
	for k, val := range v.model {
		if g, ok := st[k]; !ok || !bytes.Equal(g, val) {
			c.Failf("C07/changes-replay", "changes of %s replayed on its base give %x=%x(present=%v), the view shows %x", v.name, k, g, ok, val)
		}
	}
	for k := range st {
		if _, ok := v.model[k]; !ok {
			c.Failf("C07/changes-replay", "changes of %s replayed on its base keep key %x which the view deleted", v.name, []byte(k))
		}
	}
	// the change set mentions only keys that were written through the view
	for _, k := range r.keys {
		if !v.wrote[k] {
			c.Failf("C07/changes-extra", "changes of %s mention key %x that was never written through it", v.name, []byte(k))
		}
	}
}

type c7replayer struct {
	st   map[string][]byte
	keys []string
}

func (r *c7replayer) Put(k, v []byte) {
	r.st[string(k)] = append([]byte{}, v...)
	r.keys = append(r.keys, string(k))
}
func (r *c7replayer) Delete(k []byte) {
	delete(r.st, string(k))
	r.keys = append(r.keys, string(k))
}

// c7propagate: what changed in parent p since `before` shows through every descendant that did not write the key itself.
func c7propagate(p *c7view, before map[string][]byte) {
	if len(p.children) == 0 {
		return
	}
	changed := map[string]bool{}
	for k, v := range p.model {
		if o, ok := before[k]; !ok || !bytes.Equal(o, v) {
			changed[k] = true
		}
	}
	for k := range before {
		if _, ok := p.model[k]; !ok {
			changed[k] = true
		}
	}
	if len(changed) == 0 {
		return
	}
	for _, ch := range p.children {
		chBefore := cloneState(ch.model)
		for k := range changed {
			if ch.wrote[k] {
				continue
			}
			if v, ok := p.model[k]; ok {
				ch.model[k] = v
			} else {
				delete(ch.model, k)
			}
		}
		c7propagate(ch, chBefore)
	}
}

func (m *c7machine) snapshot() {
	c := m.c
	if len(m.views) == 0 {
		return
	}
	v := m.views[c.Pick("snap.view", len(m.views))]
	s := v.d.Snapshot()
	v.frozen = true
	nv := &c7view{d: s, ver: v.ver, model: cloneState(v.model), base: v.base, wrote: map[string]bool{}, hist: v.hist,
		later: v.later, afterRb: v.afterRb, name: fmt.Sprintf("v%d=snap(%s)", len(m.views), v.name)}
	c.Note("snapshot %s", nv.name)
	c.Class("snapshot")
	v.children = append(v.children, nv)
	m.views = append(m.views, nv)
}

// checkWholeStore compares frontier pointer, every live version (through a fresh view) and
// every still-open view with the model.
func (m *c7machine) checkWholeStore(what string) {
	c := m.c
	if got := db.GetFrontierIdentifier(m.mgr.Frontier()); got != m.frontierID() {
		c.Failf("C07/frontier-moved", "%s: frontier pointer is %v, model %v", what, got, m.frontierID())
	}
	for i := -1; i < len(m.chain); i++ {
		var id types.HashHeight
		if i >= 0 {
			id = m.chain[i].id
		}
		d := m.mgr.Get(id)
		if d == nil {
			c.Failf("C07/get-nil", "%s: Get(%v) returned nil for a live version", what, id)
		}
		tmp := &c7view{d: d, ver: id, name: fmt.Sprintf("fresh@%d", id.Height), hist: i != len(m.chain)-1}
		got, err := realScan(d, []byte{})
		if err != nil {
			c.Failf("C07/scan-error", "iterator error: %v", err)
		}
		m.compareScan(tmp, []byte{}, got, m.stateAt(i), what)
		m.checkInternal(tmp, what)
	}
	for _, v := range m.views {
		got, err := realScan(v.d, []byte{})
		if err != nil {
			c.Failf("C07/scan-error", "iterator error: %v", err)
		}
		m.compareScan(v, []byte{}, got, v.model, what+" (open view)")
	}
}

// checkInternal: the view's own notion of frontier equals its id and it holds no entry of a
// later commit (the chain reads momentums by height through exactly these keys).
func (m *c7machine) checkInternal(v *c7view, what string) {
	c := m.c
	if got := db.GetFrontierIdentifier(v.d); got != v.ver {
		c.Failf("C07/view-frontier", "%s: view %s reports frontier %v", what, v.name, got)
	}
	if data, err := db.GetEntryByHeight(v.d, v.ver.Height+1); err != leveldb.ErrNotFound {
		c.Failf("C07/get-absent", "%s: view %s returns an entry for height %d above its commit: (%x,%v)", what, v.name, v.ver.Height+1, data, err)
	}
	if v.ver.Height > 0 {
		if _, err := db.GetEntryByHeight(v.d, v.ver.Height); err != nil {
			c.Failf("C07/get-mismatch", "%s: view %s lacks its own entry: %v", what, v.name, err)
		}
	}
}

func (m *c7machine) reopen() {
	if !m.useLdb {
		return
	}
	m.c.Note("reopen (cold caches)")
	m.c.Class("reopen")
	if err := m.mgr.Stop(); err != nil {
		m.c.Failf("C07/stop-error", "Stop: %v", err)
	}
	m.mgr = db.NewLevelDBManager(m.dir)
	m.views = nil
	m.rolled = false
}

func c07Property(useLdb bool) func(c *pbt.C) {
	return func(c *pbt.C) {
		m := &c7machine{c: c, useLdb: useLdb, keysSeen: map[string]bool{}}
		if useLdb {
			dir, err := os.MkdirTemp("", "c07-")
			if err != nil {
				panic(err)
			}
			m.dir = dir
			m.mgr = db.NewLevelDBManager(dir)
			c.Cleanup(func() { _ = m.mgr.Stop(); _ = os.RemoveAll(dir) })
		} else {
			m.mgr = db.NewMemDBManager(db.NewMemDB())
		}
		// optional long prefix so that the far-view cache (views more than 360 versions behind the frontier) and
		// the cache-size boundaries are crossed
		// (the in-memory manager replays its whole history for every old view: long prefixes only in the thorough tier)
		if (useLdb || pbt.Tier() == "thorough") && c.Weighted("long-prefix", map[bool]int{true: pbt.Scale(70, 20), false: 40}[useLdb], 1) == 1 {
			n := c.Int("long-prefix.n", 380, 470)
			c.Class("more-than-400-versions")
			for i := 0; i < n; i++ {
				id := m.newID(uint64(len(m.chain) + 1))
				view := m.mgr.Get(m.frontierID())
				model := cloneState(m.stateAt(len(m.chain) - 1))
				k := []byte{0x10, byte(i % 7)}
				v := []byte{byte(i), 1}
				_ = view.Put(k, v)
				model[string(k)] = v
				m.keysSeen[string(k)] = true
				p, _ := view.Changes()
				if err := m.mgr.Add(&c7tx{c: &c7commit{id: id, prev: m.frontierID()}, p: p}); err != nil {
					c.Failf("C07/add-error", "commit on the frontier refused: %v", err)
				}
				m.chain = append(m.chain, &c7version{id: id, state: model})
				if i%97 == 0 {
					m.open()
				}
			}
		}
		actions := map[string]func(){
			"commit":      func() { m.commit(false) },
			"commit2":     func() { m.commit(false) },
			"commitStale": func() { m.commit(true) },
			"rollback":    m.rollback,
			"open":        func() { m.open() },
			"read":        m.read,
			"read2":       m.read,
			"scan":        m.scan,
			"writeView":   m.writeView,
			"snapshot":    m.snapshot,
			"reopen":      m.reopen,
		}
		c.Repeat(actions, nil)
		m.checkWholeStore("end of history")
	}
}

func TestC07Ldb(t *testing.T) { pbt.Check(t, "C07", c07Property(true)) }
func TestC07Mem(t *testing.T) { pbt.Check(t, "C07", c07Property(false)) }

// ---------------------------------------------------------------------------------------
// Concurrent clause: readers on views against one writer (build with -race).

func TestC07Conc(t *testing.T) {
	pbt.Check(t, "C07", func(c *pbt.C) {
		dir, err := os.MkdirTemp("", "c07c-")
		if err != nil {
			panic(err)
		}
		mgr := db.NewLevelDBManager(dir)
		c.Cleanup(func() { _ = mgr.Stop(); _ = os.RemoveAll(dir) })

		type ver struct {
			id    types.HashHeight
			state map[string][]byte
		}
		var mu sync.Mutex
		// the chain opens views and rolls back under one mutex (momentumPool.changes); reads on
		// an already opened view run concurrently with everything
		var openMu sync.RWMutex
		live := []*ver{{id: types.ZeroHashHeight, state: map[string][]byte{}}}
		// writer plan is drawn up front (all randomness from the source)
		nOps := c.Int("ops", 20, pbt.Scale(60, 200))
		type wop struct {
			rollback bool
			keys     [][]byte
			vals     [][]byte
		}
		plan := make([]wop, nOps)
		for i := range plan {
			if c.Weighted("w.kind", 4, 1) == 1 {
				plan[i].rollback = true
				continue
			}
			n := c.Int("w.n", 1, 3)
			for j := 0; j < n; j++ {
				plan[i].keys = append(plan[i].keys, c7key(c, "w.k"))
				if c.Weighted("w.del", 3, 1) == 1 {
					plan[i].vals = append(plan[i].vals, nil)
				} else {
					plan[i].vals = append(plan[i].vals, c.Bytes("w.v", 1, 4))
				}
			}
		}
		readers := c.Int("readers", 2, 6)
		var stop int32
		var wg sync.WaitGroup
		var failMu sync.Mutex
		var failure string
		var reads int64
		for r := 0; r < readers; r++ {
			wg.Add(1)
			go func(r int) {
				defer wg.Done()
				i := r
				for atomic.LoadInt32(&stop) == 0 {
					mu.Lock()
					v := live[(i*7+r)%len(live)]
					mu.Unlock()
					i++
					openMu.RLock()
					d := mgr.Get(v.id)
					openMu.RUnlock()
					if d == nil {
						continue // rolled back between pick and Get: allowed
					}
					if got := db.GetFrontierIdentifier(d); got != v.id {
						failMu.Lock()
						failure = fmt.Sprintf("reader: view for %v reports frontier %v", v.id, got)
						failMu.Unlock()
						return
					}
					got, err := realScan(d, []byte{0x10})
					if err != nil {
						failMu.Lock()
						failure = "reader: iterator error " + err.Error()
						failMu.Unlock()
						return
					}
					want := modelScan(v.state, []byte{0x10})
					atomic.AddInt64(&reads, 1)
					if len(got) != len(want) {
						failMu.Lock()
						failure = fmt.Sprintf("reader: view %v scan [%s] != state as of that commit [%s]", v.id, fmtScan(got), fmtScan(want))
						failMu.Unlock()
						return
					}
					for j := range got {
						if !bytes.Equal(got[j][0], want[j][0]) || !bytes.Equal(got[j][1], want[j][1]) {
							failMu.Lock()
							failure = fmt.Sprintf("reader: view %v scan [%s] != state as of that commit [%s]", v.id, fmtScan(got), fmtScan(want))
							failMu.Unlock()
							return
						}
					}
					for k, wv := range v.state {
						gv, err := d.Get([]byte(k))
						if err != nil || !bytes.Equal(gv, wv) {
							failMu.Lock()
							failure = fmt.Sprintf("reader: view %v key %s = (%x,%v), want %x", v.id, hex.EncodeToString([]byte(k)), gv, err, wv)
							failMu.Unlock()
							return
						}
					}
				}
			}(r)
		}
		counter := 0
		for _, op := range plan {
			mu.Lock()
			cur := live[len(live)-1]
			mu.Unlock()
			if op.rollback {
				if len(live) <= 1 {
					continue
				}
				mu.Lock()
				live = live[:len(live)-1]
				mu.Unlock()
				openMu.Lock()
				err := mgr.Pop()
				openMu.Unlock()
				if err != nil {
					c.Failf("C07/pop-error", "Pop: %v", err)
				}
				continue
			}
			view := mgr.Get(cur.id)
			st := cloneState(cur.state)
			for j, k := range op.keys {
				if op.vals[j] == nil {
					_ = view.Delete(k)
					delete(st, string(k))
				} else {
					_ = view.Put(k, op.vals[j])
					st[string(k)] = op.vals[j]
				}
			}
			counter++
			id := types.HashHeight{Height: cur.id.Height + 1, Hash: types.NewHash([]byte(fmt.Sprintf("cc-%d", counter)))}
			p, _ := view.Changes()
			if err := mgr.Add(&c7tx{c: &c7commit{id: id, prev: cur.id}, p: p}); err != nil {
				c.Failf("C07/add-error", "Add: %v", err)
			}
			mu.Lock()
			live = append(live, &ver{id: id, state: st})
			mu.Unlock()
		}
		atomic.StoreInt32(&stop, 1)
		wg.Wait()
		c.R.Count("concurrent_reads", int(reads))
		if failure != "" {
			c.Failf("C07/concurrent-read", "%s", failure)
		}
		if reads > 0 {
			c.NonTrivial()
			c.Class("concurrent-readers")
		}
	})
}
