package props

// C12, concurrent clause: proof-of-work checks run on many goroutines at once in a node (published transactions are
// validated outside the insert lock, peers deliver blocks concurrently); every answer equals the reference's, and the race
// detector stays silent.

import (
	"sync"
	"testing"

	"github.com/zenon-network/go-zenon/chain/nom"
	"github.com/zenon-network/go-zenon/common/types"
	"github.com/zenon-network/go-zenon/pow"

	"verifharness/pbt"
)

func TestC12Race(t *testing.T) {
	pbt.Check(t, "C12", func(c *pbt.C) {
		type item struct {
			b    *nom.AccountBlock
			want bool
		}
		var items []item
		n := c.Int("items", 8, 40)
		for i := 0; i < n; i++ {
			var addr types.Address
			copy(addr[:], c.Bytes("addr", 20, 20))
			prev := types.NewHash(c.Bytes("prev", 0, 8))
			d := uint64(1) << uint(c.Int("dk", 1, 12))
			var nonce [8]byte
			if c.Bool("mined") {
				nonce, _ = mine(addr, prev, d, c.Uint64("start", 0, 1<<40), 1<<16)
			} else {
				copy(nonce[:], c.Bytes("nonce", 8, 8))
			}
			items = append(items, item{&nom.AccountBlock{Address: addr, PreviousHash: prev, Difficulty: d, Nonce: nom.Nonce{Data: nonce}}, refPowAccept(d, refPowValue(addr, prev, nonce))})
		}
		workers := c.Int("workers", 2, 8)
		rounds := c.Int("rounds", 50, 400)
		var wg sync.WaitGroup
		var mu sync.Mutex
		wrong := ""
		for w := 0; w < workers; w++ {
			wg.Add(1)
			go func(w int) {
				defer wg.Done()
				for r := 0; r < rounds; r++ {
					it := items[(w+r)%len(items)]
					if got := pow.CheckPoWNonce(it.b); got != it.want {
						mu.Lock()
						wrong = it.b.Address.String()
						mu.Unlock()
						return
					}
				}
			}(w)
		}
		wg.Wait()
		if wrong != "" {
			c.Failf("C12/pow-answer-under-concurrency", "a proof-of-work check running beside others answered differently from the reference (block of %s)", wrong)
		}
		c.NonTrivial()
	})
}
