package props

// C09, concurrent clause: producing the contracts' receive blocks while RPC clients keep the node busy decoding the
// same ABI data (embedded queries parse contract storage, published transactions are validated outside the insert
// lock). Built with the race detector: a detected race, a panic in the receive generation (pre-flight) or an inbox
// that stays wedged are violations.

import (
	"fmt"
	"math/big"
	"sync"
	"sync/atomic"
	"testing"

	"github.com/zenon-network/go-zenon/chain/nom"
	"github.com/zenon-network/go-zenon/common/types"
	"github.com/zenon-network/go-zenon/rpc/api/embedded"
	"github.com/zenon-network/go-zenon/vm/embedded/definition"

	"verifharness/pbt"
	"verifharness/sim"
)

func TestC09Race(t *testing.T) {
	pbt.Check(t, "C09", func(c *pbt.C) {
		spec := genSpec(c)
		spec.ActiveSporks = 2
		h := sim.NewHist(c, spec, genWorldOpts(c))
		h.Intents = sim.DefaultIntents()
		z := &sim.ZAdapter{N: h.A}
		pil, tok, pla, stk, sen, acc := embedded.NewPillarApi(z, true), embedded.NewTokenApi(z), embedded.NewPlasmaApi(z), embedded.NewStakeApi(z), embedded.NewSentinelApi(z), embedded.NewAcceleratorApi(z)
		users := h.Users
		// call data the "publishers" keep validating: decoding is what they share with the receive generation
		var calls [][]byte
		for _, p := range spec.Pillars {
			calls = append(calls, definition.ABIPillars.PackMethodPanic(definition.DelegateMethodName, p.Name))
			calls = append(calls, definition.ABIPillars.PackMethodPanic(definition.UpdatePillarMethodName, p.Name, users[0], users[1%len(users)], uint8(10), uint8(20)))
		}
		calls = append(calls, definition.ABIToken.PackMethodPanic(definition.IssueMethodName, "Race-Token", "RACE", "verif.test", big.NewInt(10), big.NewInt(100), uint8(2), true, true, false))
		calls = append(calls, definition.ABIAccelerator.PackMethodPanic(definition.CreateProjectMethodName, "race-project", "concurrent decoding", "www.verif.test", big.NewInt(100), big.NewInt(1000)))
		var stop int32
		var wg sync.WaitGroup
		var queries int64
		var mu sync.Mutex
		readerPanic := ""
		readers := c.Int("readers", 2, 6)
		for r := 0; r < readers; r++ {
			wg.Add(1)
			go func(r int) {
				defer wg.Done()
				defer func() {
					if p := recover(); p != nil {
						mu.Lock()
						readerPanic = fmt.Sprintf("reader %d: %v", r, p)
						mu.Unlock()
					}
				}()
				i := r
				for atomic.LoadInt32(&stop) == 0 {
					u := users[i%len(users)]
					switch i % 8 {
					case 0:
						_, _ = pil.GetAll(0, 10)
					case 1:
						_, _ = tok.GetAll(0, 10)
					case 2:
						_, _ = pla.GetEntriesByAddress(u, 0, 10)
					case 3:
						_, _ = stk.GetEntriesByAddress(u, 0, 10)
					case 4:
						_, _ = sen.GetAllActive(0, 10)
					case 5:
						_, _ = acc.GetAll(0, 10)
					default:
						// what PublishRawTransaction does before taking the insert lock: the call data is unpacked and repacked
						_ = unpackAny(calls[i%len(calls)])
					}
					i++
					atomic.AddInt64(&queries, 1)
				}
			}(r)
		}
		steps := c.Int("steps", 10, pbt.Scale(40, 120))
		for s := 0; s < steps && !h.Dead; s++ {
			switch c.Weighted("w", 4, 3, 3) {
			case 0:
				h.ActIntent()
			case 1:
				from := users[c.Pick("d.from", len(users))]
				p := spec.Pillars[c.Pick("d.pillar", len(spec.Pillars))]
				_, _ = h.Submit(&nom.AccountBlock{Address: from, ToAddress: types.PillarContract, TokenStandard: types.ZnnTokenStandard, Amount: big.NewInt(0),
					Data: definition.ABIPillars.PackMethodPanic(definition.DelegateMethodName, p.Name)}, "pillar.Delegate("+p.Name+")")
			default:
				h.Produce(0)
			}
			if h.A.Preflight != nil {
				break
			}
		}
		atomic.StoreInt32(&stop, 1)
		wg.Wait()
		if pf := h.A.Preflight; pf != nil {
			key := "C09/receive-internal-error"
			if pf.Panic != nil {
				key = "C09/receive-panic"
			}
			c.Failf(key+"/"+sim.ContractNames[pf.Contract]+"/concurrent", "while %d clients were querying the node: %s\n%s", readers, pf.String(), trunc(pf.Stack, 2500))
		}
		if readerPanic != "" {
			c.Failf("C09/query-panic/concurrent", "a query running beside the receive generation panicked: %s", readerPanic)
		}
		c.R.Count("concurrent_queries", int(atomic.LoadInt64(&queries)))
		if atomic.LoadInt64(&queries) > 50 && h.Momentums > 2 {
			c.NonTrivial()
		}
	})
}

// unpackAny decodes call data with the ABI of whichever embedded contract knows the selector (validation-style use).
func unpackAny(data []byte) error {
	if len(data) < 4 {
		return nil
	}
	for _, ct := range sim.ContractList {
		ab, ok := sim.Contracts[ct]
		if !ok {
			continue
		}
		m, err := ab.MethodById(data[:4])
		if err != nil {
			continue
		}
		_, err = m.Inputs.UnpackValues(data[4:])
		return err
	}
	return nil
}
