package props

// C09 — every accepted call to an embedded contract completes or refunds; no accepted input
// wedges a contract's inbox or crashes a producing pillar.

import (
	"fmt"
	"testing"

	"github.com/zenon-network/go-zenon/chain/nom"
	"github.com/zenon-network/go-zenon/common/types"

	"verifharness/pbt"
	"verifharness/sim"
)

func TestC09(t *testing.T) {
	pbt.Check(t, "C09", func(c *pbt.C) {
		spec := genSpec(c)
		// spork regimes: none, active from an early height, or switching on inside the history
		switch c.Weighted("c09.sporks", 1, 2, 3) {
		case 0:
			spec.ActiveSporks = 0
		case 1:
			spec.ActiveSporks = 2
		default:
			spec.ActiveSporks = uint64(c.Int("c09.sporkHeight", 3, 25))
		}
		opts := genWorldOpts(c)
		bridgeWorld := c.Weighted("c09.bridgeWorld", 2, 1) == 1
		if bridgeWorld {
			spec.ActiveSporks = 2
			opts.Bridge = true
			for len(spec.Users) < 5 {
				spec.Users = append(spec.Users, sim.UserSpec{Znn: 9000, Qsr: 90000})
			}
		}
		h := sim.NewHist(c, spec, opts)
		h.Intents = sim.DefaultIntents()
		h.AckDepthMax = 2
		if bridgeWorld {
			c.Class("bridge-world")
			if err := sim.BridgeScript(h, c.Int("c09.wraps", 0, 4), c.Int("c09.unwraps", 0, 3)); err != nil {
				c.Note("bridge script stopped: %v", err)
				c.Class("bridge-script-incomplete")
				c.Class("bridge-script-incomplete: " + trunc(err.Error(), 60))
			}
			if err := sim.LiquidityScript(h); err != nil {
				c.Note("liquidity script stopped: %v", err)
				c.Class("liquidity-script-incomplete")
			}
			h.Intents = append(h.Intents, sim.BridgeIntents()...)
			h.Intents = append(h.Intents, sim.BridgeIntents()...)
			h.Focus = []types.Address{types.BridgeContract, types.LiquidityContract}
		}
		if c.Weighted("c09.ecoWorld", 2, 1) == 1 {
			c.Class("ecosystem-world")
			if n, err := sim.EcosystemScript(h); err != nil {
				c.Note("ecosystem script stopped: %v", err)
			} else {
				c.R.Count("ecosystem_script_calls_accepted", n)
			}
		}
		seen := map[types.Hash]bool{}
		refunds, applied, straddle, nonDefault := 0, 0, 0, 0
		checkReceives := func() {
			l, err := sim.Scan(h.A)
			if err != nil {
				c.Failf("C09/scan-error", "%v", err)
			}
			for _, ct := range sim.ContractList {
				for _, r := range l.Blocks[ct] {
					if r.BlockType != nom.BlockTypeContractReceive || seen[r.Hash] {
						continue
					}
					seen[r.Hash] = true
					s := l.Sends[r.FromBlockHash]
					if s == nil {
						continue
					}
					merr, known := h.A.MethodErrs[s.Hash]
					if !known {
						continue
					}
					what := fmt.Sprintf("call %v to %s (from %v, amount %v %v, data 0x%x)", s.Hash, sim.ContractNames[ct], s.Address, s.Amount, s.TokenStandard, s.Data)
					mname := "?"
					if ab, ok := sim.Contracts[ct]; ok && len(s.Data) >= 4 {
						if m, err := ab.MethodById(s.Data[:4]); err == nil {
							mname = m.Name
						}
					}
					if merr != nil {
						c.R.Count("refunded/"+sim.ContractNames[ct]+"."+mname, 1)
					} else {
						c.R.Count("applied/"+sim.ContractNames[ct]+"."+mname, 1)
					}
					if merr != nil {
						refunds++
						c.Class("failed-at-receive-time")
						// exactly the sent amount goes back to the sender, nothing else leaves
						if s.Amount.Sign() > 0 {
							if len(r.DescendantBlocks) != 1 {
								c.Failf("C09/refund-shape", "%s failed with %q but its receive carries %d descendant sends instead of one refund", what, merr, len(r.DescendantBlocks))
							}
							d := r.DescendantBlocks[0]
							if d.ToAddress != s.Address || d.Amount.Cmp(s.Amount) != 0 || d.TokenStandard != s.TokenStandard {
								c.Failf("C09/refund-amount", "%s failed with %q; refund is %v %v to %v instead of the sent amount to the sender", what, merr, d.Amount, d.TokenStandard, d.ToAddress)
							}
						} else if len(r.DescendantBlocks) != 0 {
							c.Failf("C09/refund-shape", "%s failed with %q, sent nothing, yet its receive carries %d descendant sends", what, merr, len(r.DescendantBlocks))
						}
					} else {
						applied++
					}
					if spec.ActiveSporks > 0 && s.MomentumAcknowledged.Height < spec.ActiveSporks && r.MomentumAcknowledged.Height >= spec.ActiveSporks {
						straddle++
						c.Class("call-straddles-spork-boundary")
					}
				}
			}
		}
		inv := func() {
			if h.A.Preflight != nil {
				pf := h.A.Preflight
				key := "C09/receive-internal-error"
				if pf.Panic != nil {
					key = "C09/receive-panic"
				}
				sel := "none"
				if len(pf.Send.Data) >= 4 {
					sel = fmt.Sprintf("%x", pf.Send.Data[:4])
				}
				c.Failf(fmt.Sprintf("%s/%s/%s", key, sim.ContractNames[pf.Contract], sel), "%s\n%s", pf.String(), trunc(pf.Stack, 2500))
				h.Dead = true
				return
			}
			if h.Dead {
				return
			}
			checkReceives()
		}
		afterMomentum := func() {
			if h.Dead || h.A.Preflight != nil {
				return
			}
			// the worker drains every inbox after its momentum: nothing confirmed may stay queued
			for _, ct := range sim.ContractList {
				if sb := h.A.InboxHead(ct); sb != nil {
					c.Failf("C09/inbox-wedged/"+sim.ContractNames[ct], "after momentum %d the inbox of %s still holds send %v (from %v, data 0x%x): its receive was not produced",
						h.A.Height(), sim.ContractNames[ct], sb.Hash, sb.Address, sb.Data)
				}
			}
		}
		h.OnMomentum = afterMomentum
		acts := map[string]func(){
			"transfer": h.ActTransfer, "receive": h.ActReceive,
			"callABI": h.ActCallABI, "callABI2": h.ActCallABI, "callABI3": h.ActCallABI,
			"intent": h.ActIntent, "intent2": h.ActIntent, "intent3": h.ActIntent,
			"produce": h.ActProduce, "produce2": h.ActProduce,
			// epochs close (reward updates of every contract run), locks and time challenges expire
			"skipAhead": func() { h.Produce(c.Int("skipAhead", 5, 400)) },
		}
		if bridgeWorld {
			flow := sim.BridgeFlowIntents()
			acts["bridgeFlow"] = func() { h.ActIntentOf(flow, "bridgeFlow") }
		}
		c.Repeat(acts, inv)
		for i := 0; i < 3 && !h.Dead; i++ {
			h.Produce(0)
			inv()
		}
		_ = nonDefault
		for _, s := range h.Calls {
			name := "?"
			if ab, ok := sim.Contracts[s.ToAddress]; ok && len(s.Data) >= 4 {
				if m, err := ab.MethodById(s.Data[:4]); err == nil {
					name = m.Name
				}
			}
			c.R.Count("accepted/"+sim.ContractNames[s.ToAddress]+"."+name, 1)
		}
		c.R.Count("calls_accepted", len(h.Calls))
		c.R.Count("calls_rejected_at_send_time", h.Rejected)
		c.R.Count("receives_failed_and_refunded", refunds)
		c.R.Count("receives_applied", applied)
		c.R.Count("calls_straddling_spork_boundary", straddle)
		if refunds > 0 || straddle > 0 {
			c.NonTrivial()
		}
	})
}
