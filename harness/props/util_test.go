package props

import (
	"math/big"

	"github.com/zenon-network/go-zenon/common/types"
	"github.com/zenon-network/go-zenon/vm/embedded/definition"
)

var bigOne = big.NewInt(1)

func fuseData(ben types.Address) []byte {
	return definition.ABIPlasma.PackMethodPanic(definition.FuseMethodName, ben)
}
