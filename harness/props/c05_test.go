package props

// C05 — momentums come only from the elected pillar; the schedule is deterministic.

import (
	"crypto/ed25519"
	"fmt"
	"math/big"
	"sync"
	"testing"
	"time"

	"github.com/zenon-network/go-zenon/chain/nom"
	"github.com/zenon-network/go-zenon/common/types"
	"github.com/zenon-network/go-zenon/vm/constants"

	"verifharness/pbt"
	"verifharness/sim"
)

// electionSpec: 1..40 pillars with equal or distinct weights.
func electionSpec(c *pbt.C) *sim.Spec {
	np := []int{1, 2, 3, 5, 8, 29, 30, 31, 36, 40}[c.Pick("el.pillars", 10)]
	if pbt.Tier() != "thorough" && np > 8 && c.Weighted("el.small", 1, 1) == 0 {
		np = c.Int("el.pillars.small", 1, 8)
	}
	spec := sim.DefaultSpec(np, c.Int("el.users", 3, 6))
	equal := c.Bool("el.equalWeights")
	for i := range spec.Pillars {
		if equal {
			spec.Pillars[i].Znn = 1000
		} else {
			spec.Pillars[i].Znn = int64(1000 + 37*((i*7)%11))
		}
		spec.Pillars[i].Amount = new(big.Int).Set(constants.PillarStakeAmount)
	}
	if equal {
		// no user delegations so that weights stay equal until the history moves them
		var d []sim.DelegSpec
		for _, x := range spec.Delegs {
			for i := range spec.Pillars {
				if x.Backer == sim.PillarKey(spec.Pillars[i].Key).Address {
					d = append(d, x)
				}
			}
		}
		spec.Delegs = d
		c.Class("equal-weights")
	}
	// pillars nobody backs (weight exactly zero): registered and active all the same
	if np >= 2 && c.Weighted("el.unbacked", 2, 1) == 1 {
		k := c.Int("el.unbackedN", 1, (np+1)/2)
		unbacked := map[string]bool{}
		for i := 0; i < k; i++ {
			unbacked[spec.Pillars[(i*3+1)%np].Name] = true
		}
		var d []sim.DelegSpec
		for _, x := range spec.Delegs {
			if !unbacked[x.Pillar] {
				d = append(d, x)
			}
		}
		spec.Delegs = d
		c.Class("pillars-without-backers")
	}
	c.Class(fmt.Sprintf("pillars-%s", map[bool]string{true: "<=30", false: ">30"}[np <= 30]))
	return spec
}

// checkSchedule compares the node's schedule with the reference for the given ticks.
func checkSchedule(c *pbt.C, n *sim.Node, ticks []uint64, where string) (checked int) {
	front := n.Frontier()
	for _, tick := range ticks {
		ref, proof, active, err := sim.RefElection(n, tick)
		if err != nil {
			c.Failf("C05/reference-error", "%s: reference election failed for tick %d: %v", where, tick, err)
		}
		if len(ref) != sim.RefSlots {
			c.Failf("C05/reference-error", "reference produced %d slots", len(ref))
		}
		for slot := 0; slot < sim.RefSlots; slot++ {
			ts := sim.SlotStart(n, tick, slot)
			got, err := n.Cons.GetMomentumProducer(ts)
			if err != nil {
				c.Failf("C05/schedule-error", "%s on %s: no producer for tick %d slot %d (proof momentum %d, frontier %d): %v", where, n.Name, tick, slot, proof.Height, front.Height, err)
			}
			if *got != ref[slot] {
				c.Failf("C05/schedule-mismatch", "%s on %s: tick %d slot %d (proof momentum %d, frontier %d): node elects %v, the election defined by the ledger gives %v",
					where, n.Name, tick, slot, proof.Height, front.Height, *got, ref[slot])
			}
			if !active[*got] {
				c.Failf("C05/inactive-producer", "%s on %s: tick %d slot %d elects %v which is not a registered active pillar at the proof momentum %d", where, n.Name, tick, slot, *got, proof.Height)
			}
		}
		// a timestamp that is not the start of a slot has no producer
		if _, err := n.Cons.GetMomentumProducer(sim.SlotStart(n, tick, 3).Add(3 * time.Second)); err == nil {
			c.Failf("C05/unaligned-slot", "%s: a producer is reported for a timestamp inside a slot", where)
		}
		checked++
		if proof.Height != front.Height {
			c.Class("proof-momentum-behind-frontier")
		}
	}
	return
}

func allTicks(n *sim.Node) []uint64 {
	tick, _, _ := sim.TickOf(n, *n.Frontier().Timestamp)
	var out []uint64
	for t := uint64(0); t <= tick+1; t++ {
		out = append(out, t)
	}
	return out
}

func permuteTicks(c *pbt.C, ticks []uint64, label string) []uint64 {
	out := append([]uint64{}, ticks...)
	for i := len(out) - 1; i > 0; i-- {
		j := c.Int(label, 0, i)
		out[i], out[j] = out[j], out[i]
	}
	return out
}

func TestC05Election(t *testing.T) {
	pbt.Check(t, "C05", func(c *pbt.C) {
		h := sim.NewHist(c, electionSpec(c), genWorldOpts(c))
		h.Intents = sim.DefaultIntents()
		if c.Weighted("el.ecoWorld", 2, 1) == 1 {
			// a pillar registered during the history (its own producing address), delegations to come
			c.Class("ecosystem-world")
			if _, err := sim.EcosystemScript(h); err != nil {
				c.Note("ecosystem script stopped: %v", err)
			}
		}
		// history with balance moves, delegations, registrations and large slot skips
		rounds := c.Int("rounds", 2, pbt.Scale(6, 14))
		for r := 0; r < rounds && !h.Dead; r++ {
			for i := 0; i < c.Int("acts", 0, 6); i++ {
				switch c.Weighted("act", 3, 3, 2) {
				case 0:
					h.ActTransfer()
				case 1:
					h.ActIntent()
				default:
					h.ActReceive()
				}
			}
			skip := 0
			switch c.Weighted("skipkind", 4, 2, 2) {
			case 1:
				skip = c.Int("skip.small", 1, 5)
			case 2:
				skip = c.Int("skip.big", 6, 70)
			}
			h.Produce(skip)
			c.Step()
			if c.Weighted("liveQuery", 2, 1) == 1 && !h.Dead {
				ticks := allTicks(h.A)
				checkSchedule(c, h.A, ticks[len(ticks)-min(3, len(ticks)):], "live")
			}
		}
		if h.Dead {
			c.Excluded("C09-preflight-abort")
			return
		}
		ticks := allTicks(h.A)
		n1 := checkSchedule(c, h.A, permuteTicks(c, ticks, "perm.a"), "producer (warm cache)")
		// follower synced in batches: cache filled in a different order
		b := h.W.AddNode("B", false)
		top := h.A.Height()
		at := uint64(1)
		for at < top {
			to := min64(at+uint64(c.Int("sync.batch", 1, 12)), top)
			if _, err := b.Bridge.InsertChain(h.A.Range(at+1, to)); err != nil {
				c.Failf("C05/follower", "follower refused honest momentums: %v", err)
			}
			at = to
			if c.Weighted("sync.query", 2, 1) == 1 {
				tk := allTicks(b)
				checkSchedule(c, b, []uint64{tk[c.Pick("sync.tick", len(tk))]}, "follower mid-sync")
			}
		}
		checkSchedule(c, b, permuteTicks(c, ticks, "perm.b"), "follower after batch sync")
		// restart on the consensus database (elections and period points are read back from storage) ...
		if c.Bool("restart.warmFirst") {
			nb, err := b.Restart(true)
			if err != nil {
				c.Failf("C05/follower", "restart failed: %v", err)
			}
			h.W.Replace(b, nb)
			b = nb
			checkSchedule(c, b, permuteTicks(c, ticks, "perm.w"), "follower after restart (consensus database kept)")
			c.Class("restart-on-kept-consensus-database")
		}
		// ... and with a cold consensus cache
		nb, err := b.Restart(false)
		if err != nil {
			c.Failf("C05/follower", "restart failed: %v", err)
		}
		h.W.Replace(b, nb)
		checkSchedule(c, nb, permuteTicks(c, ticks, "perm.c"), "follower after restart (cold cache)")
		c.R.Count("ticks_checked", n1*3)
		if len(ticks) >= 3 {
			c.NonTrivial()
		}
	})
}

func TestC05Reorg(t *testing.T) {
	pbt.Check(t, "C05", func(c *pbt.C) {
		reorgScenario(c, "C05", func(c *pbt.C, key string, b, cn *sim.Node) {
			checkSchedule(c, b, allTicks(b), "after reorganisation")
			c.NonTrivial()
		})
	})
}

// ---- (a) candidate momentums -------------------------------------------------------------

func TestC05Candidates(t *testing.T) {
	pbt.Check(t, "C05", func(c *pbt.C) {
		spec := electionSpec(c)
		// the "not in the future" clause is measured against the machine's clock (the one value of the node that does not
		// come from the harness clock): in half of the worlds the chain starts two hours before the present, so that a
		// momentum stamped one hour ahead is a cheap, precise probe (ticks of a few hours instead of decades)
		presentDay := c.Bool("presentDayWorld")
		if presentDay {
			spec.Timestamp = (time.Now().Unix() - 7200) / 10 * 10
			c.Class("present-day-world")
		}
		h := sim.NewHist(c, spec, genWorldOpts(c))
		h.Intents = sim.DefaultIntents()
		grow(c, h, "prefix", c.Int("prefix.m", 2, 10), 12)
		if h.Dead {
			return
		}
		b := h.W.AddNode("B", false)
		if _, err := b.Bridge.InsertChain(h.A.Range(2, h.A.Height())); err != nil {
			c.Failf("C05/follower", "follower refused honest momentums: %v", err)
		}
		offered, accepted, sigValid := 0, 0, 0
		rounds := c.Int("rounds", 1, pbt.Scale(4, 10))
		var older []*nom.DetailedMomentum
		for r := 0; r < rounds && !h.Dead; r++ {
			base := h.A.Height()
			for i := 0; i < c.Int("acts", 0, 4); i++ {
				[]func(){h.ActTransfer, h.ActIntent, h.ActReceive}[c.Pick("act", 3)]()
			}
			// a stale producer event: a pillar of this node that is NOT elected for the slot is told to produce
			// (its own momentum goes through generation and insertion only, nobody else re-verifies it first)
			if len(h.W.Keys.Pillars) > 1 && c.Weighted("staleEvent", 2, 1) == 1 {
				skip := c.Weighted("stale.skip", 4, 1, 1)
				ts := sim.SlotTime(h.A.Frontier(), skip)
				if elected, err := h.A.Cons.GetMomentumProducer(ts); err == nil {
					var others []types.Address
					for _, kp := range h.W.Keys.Pillars {
						if kp.Address != *elected {
							others = append(others, kp.Address)
						}
					}
					who := others[c.Pick("stale.who", len(others))]
					before := h.A.Frontier().Hash
					if h.A.ProcessEventFor(skip, who) {
						c.Class("stale-producer-event")
						if fr := h.A.Frontier(); fr.Hash != before {
							c.Failf("C05/own-momentum-by-non-elected", "told to produce for the slot at %d, pillar %v (not elected: %v is) generated momentum %d and the node inserted it", ts.Unix(), who, *elected, fr.Height)
						}
					}
				}
				base = h.A.Height()
			}
			if !h.Produce(c.Weighted("skip", 4, 1, 1)) {
				break
			}
			honest := h.A.Range(base+1, base+1)[0]
			// the honest account blocks reach the follower's pool first, so that candidates can be
			// evaluated statelessly with ApplyMomentum
			for _, blk := range honest.AccountBlocks {
				if blk.BlockType != nom.BlockTypeContractSend {
					if wb, err := sim.WireBlocks([]*nom.AccountBlock{blk}); err == nil {
						_ = b.Bridge.AddAccountBlocks(wb)
					}
				}
			}
			front := b.Frontier()
			cands := map[string]*nom.DetailedMomentum{}
			for _, kind := range sim.MomentumFaults {
				if f := sim.InjectFault(honest, kind, h.W.Keys, nil); f != nil {
					cands[kind] = f
				}
			}
			producer := h.W.Keys.ByAddr[honest.Momentum.Producer()]
			retime := func(name string, ts uint64, signer int) {
				f := sim.CopyDetailed(honest)
				f.Momentum.TimestampUnix = ts
				f.Momentum.Timestamp = nil
				f.Momentum.EnsureCache()
				kp := producer
				if signer >= 0 {
					kp = h.W.Keys.Pillars[signer%len(h.W.Keys.Pillars)]
				}
				sim.Resign(f.Momentum, kp)
				cands[name] = sim.CopyDetailed(f)
			}
			ts := honest.Momentum.TimestampUnix
			retime("retimed+10-by-same", ts+10, -1)
			retime("retimed-10-by-same", ts-10, -1)
			retime("timestamp-equal-previous", front.TimestampUnix, -1)
			retime("timestamp-before-previous", front.TimestampUnix-10, -1)
			retime("timestamp-unaligned", ts+3, -1)
			if presentDay {
				// ahead of the clock by 20 s .. 1 h, signed by the pillar that IS elected for that slot
				fts := (uint64(time.Now().Unix()) + uint64([]int{20, 60, 600, 3600}[c.Pick("future.ahead", 4)])) / 10 * 10
				if el, err := b.Cons.GetMomentumProducer(time.Unix(int64(fts), 0)); err == nil && el != nil {
					for i, kp := range h.W.Keys.Pillars {
						if kp.Address == *el {
							retime("future-by-the-pillar-elected-for-that-slot", fts, i)
							c.Class("future-momentum-by-its-elected-pillar")
						}
					}
				}
			}
			for k := 0; k < 3; k++ {
				// another slot, signed by every candidate pillar: only the pillar elected for THAT slot may pass
				off := uint64(c.Int("slot.off", 1, 40)) * 10
				retime(fmt.Sprintf("other-slot+%d-by-pillar-%d", off, k), ts+off, c.Pick("slot.signer", len(h.W.Keys.Pillars)))
			}
			// every other pillar signing the honest momentum
			for i, kp := range h.W.Keys.Pillars {
				if kp.Address != honest.Momentum.Producer() && i < 6 {
					f := sim.CopyDetailed(honest)
					sim.Resign(f.Momentum, kp)
					cands[fmt.Sprintf("signed-by-pillar-%d", i)] = sim.CopyDetailed(f)
				}
			}
			f := sim.CopyDetailed(honest)
			sim.Resign(f.Momentum, h.W.Keys.Users[0])
			cands["signed-by-non-pillar"] = sim.CopyDetailed(f)
			// stale momentums (replayed) at this frontier
			for i, o := range older {
				if i < 2 {
					cands[fmt.Sprintf("replayed-%d", o.Momentum.Height)] = sim.CopyDetailed(o)
				}
			}
			cands["honest"] = sim.CopyDetailed(honest)
			names := make([]string, 0, len(cands))
			for k := range cands {
				names = append(names, k)
			}
			sortStrings(names)
			for _, name := range names {
				cand := cands[name]
				offered++
				m := cand.Momentum
				var err error
				var idx int
				func() {
					defer func() {
						if r := recover(); r != nil {
							err = fmt.Errorf("panic: %v", r)
						}
					}()
					// the real acceptance path of a propagated momentum
					idx, err = b.Bridge.InsertChain([]*nom.DetailedMomentum{cand})
				}()
				_ = idx
				now := b.Frontier()
				acceptedNow := err == nil && now.Hash == m.Hash && now.Height == front.Height+1
				if !acceptedNow && now.Identifier() != front.Identifier() {
					c.Failf("C05/frontier-moved", "candidate %q (err %v) was not adopted yet the frontier moved from %v to %v", name, err, front.Identifier(), now.Identifier())
				}
				sigOK := len(m.PublicKey) == 32 && len(m.Signature) == 64 && ed25519.Verify(ed25519.PublicKey(m.PublicKey), m.Hash.Bytes(), m.Signature)
				if sigOK && name != "honest" {
					sigValid++
					c.NonTrivialItem(name[:min(len(name), 24)])
				}
				if !acceptedNow {
					if name == "honest" {
						c.Failf("C05/honest-refused", "the follower refuses the honest momentum %d: %v", m.Height, err)
					}
					continue
				}
				accepted++
				if name != "honest" {
					c.Class("accepted-candidate:" + name[:min(len(name), 20)])
				}
				// ---- predicate from the statement ----
				fail := func(clause, detail string) {
					c.Failf("C05/accepted-invalid/"+clause, "candidate %q at frontier %d was accepted although %s", name, front.Height, detail)
				}
				if m.Hash != m.ComputeHash() {
					fail("hash", "its hash does not commit to its content")
				}
				if m.Previous() != front.Identifier() {
					fail("previous", fmt.Sprintf("it extends %v, the frontier is %v", m.Previous(), front.Identifier()))
				}
				if m.TimestampUnix <= front.TimestampUnix {
					fail("timestamp", fmt.Sprintf("its timestamp %d is not later than the frontier's %d", m.TimestampUnix, front.TimestampUnix))
				}
				if int64(m.TimestampUnix) > time.Now().Unix()+10 {
					fail("future", fmt.Sprintf("its timestamp %d is in the future", m.TimestampUnix))
				}
				if !sigOK {
					fail("signature", "its signature does not verify")
				}
				tick, slot, aligned := sim.TickOf(b, *m.Timestamp)
				if !aligned {
					fail("slot", "its timestamp is not the start of a slot")
				}
				ref, _, _, rerr := sim.RefElection(b, tick)
				if rerr != nil {
					c.Failf("C05/reference-error", "%v", rerr)
				}
				if signer := types.PubKeyToAddress(m.PublicKey); signer != ref[slot] {
					fail("producer", fmt.Sprintf("it is signed by %v, the pillar elected for tick %d slot %d is %v", signer, tick, slot, ref[slot]))
				}
				if sameContent(m, honest.Momentum) && m.ChangesHash != honest.Momentum.ChangesHash {
					fail("changes-hash", "its changes hash differs from the state changes its content produces")
				}
				if len(m.Data) != 0 {
					fail("data", "it carries data")
				}
				// undo the adoption so that the next candidate meets the same frontier
				ins := b.Chain.AcquireInsert("c05 undo")
				rerr2 := b.Chain.RollbackTo(ins, front.Identifier())
				ins.Unlock()
				if rerr2 != nil {
					panic(rerr2)
				}
			}
			// follower adopts the honest momentum and goes on
			if _, err := b.Bridge.InsertChain([]*nom.DetailedMomentum{sim.CopyDetailed(honest)}); err != nil {
				c.Failf("C05/honest-refused", "the follower refuses the honest momentum: %v", err)
			}
			older = append([]*nom.DetailedMomentum{honest}, older...)
			c.Step()
		}
		c.R.Count("candidates_offered", offered)
		c.R.Count("candidates_accepted", accepted)
		c.R.Count("candidates_with_valid_signature", sigValid)
		if sigValid > 0 {
			c.NonTrivial()
		}
	})
}

func sameContent(a, b *nom.Momentum) bool {
	if len(a.Content) != len(b.Content) || a.PreviousHash != b.PreviousHash {
		return false
	}
	for i := range a.Content {
		if *a.Content[i] != *b.Content[i] {
			return false
		}
	}
	return true
}

func sortStrings(s []string) {
	for i := 1; i < len(s); i++ {
		for j := i; j > 0 && s[j] < s[j-1]; j-- {
			s[j], s[j-1] = s[j-1], s[j]
		}
	}
}

// TestC05Race (built with -race): the schedule is the same "computed live, from its cache, after a restart": several
// goroutines ask a node with a cold consensus cache for the producers of many ticks at once (what the insert
// goroutine, the consensus loop, RPC and contract execution do on a real node) while momentums are being inserted;
// every answer must equal the election defined by the ledger, and the race detector must stay silent.
func TestC05Race(t *testing.T) {
	pbt.Check(t, "C05", func(c *pbt.C) {
		h := sim.NewHist(c, electionSpec(c), genWorldOpts(c))
		h.Intents = sim.DefaultIntents()
		for r, rounds := 0, c.Int("rounds", 3, 8); r < rounds && !h.Dead; r++ {
			for i := 0; i < c.Int("acts", 0, 3); i++ {
				h.ActIntent()
			}
			h.Produce([]int{0, 0, 3, 31, 64}[c.Pick("skip", 5)])
		}
		if h.Dead {
			return
		}
		top := h.A.Height()
		b := h.W.AddNode("B", false)
		half := top/2 + 1
		if half > 1 {
			if _, err := b.Bridge.InsertChain(h.A.Range(2, half)); err != nil {
				c.Failf("C05/follower", "follower refused honest momentums: %v", err)
			}
		}
		// cold consensus cache
		nb, err := b.Restart(false)
		if err != nil {
			c.Failf("C05/follower", "restart failed: %v", err)
		}
		h.W.Replace(b, nb)
		ticks := allTicks(nb)
		type q struct {
			ts   time.Time
			want types.Address
			tick uint64
			slot int
		}
		var qs []q
		for _, tick := range ticks[:len(ticks)-1] { // ticks whose proof momentum the follower has
			ref, _, _, err := sim.RefElection(nb, tick)
			if err != nil {
				continue
			}
			for slot := 0; slot < sim.RefSlots; slot += 1 + c.Int("slotStep", 0, 6) {
				qs = append(qs, q{ts: sim.SlotStart(nb, tick, slot), want: ref[slot], tick: tick, slot: slot})
			}
		}
		if len(qs) == 0 {
			return
		}
		workers := c.Int("workers", 2, 8)
		orders := make([][]int, workers)
		for w := range orders {
			for i := range qs {
				orders[w] = append(orders[w], i)
			}
			for i := len(qs) - 1; i > 0; i-- {
				j := c.Int("order", 0, i)
				orders[w][i], orders[w][j] = orders[w][j], orders[w][i]
			}
		}
		rest := h.A.Range(half+1, top)
		var wg sync.WaitGroup
		bad := make(chan string, workers+1)
		for w := 0; w < workers; w++ {
			wg.Add(1)
			go func(w int) {
				defer wg.Done()
				defer func() {
					if r := recover(); r != nil {
						select {
						case bad <- fmt.Sprintf("panic inside the election: %v", r):
						default:
						}
					}
				}()
				for _, i := range orders[w] {
					got, err := nb.Cons.GetMomentumProducer(qs[i].ts)
					if err != nil || got == nil || *got != qs[i].want {
						select {
						case bad <- fmt.Sprintf("tick %d slot %d: concurrent reader %d got %v (%v), the election defined by the ledger gives %v", qs[i].tick, qs[i].slot, w, got, err, qs[i].want):
						default:
						}
						return
					}
				}
			}(w)
		}
		// the insert goroutine
		wg.Add(1)
		go func() {
			defer wg.Done()
			for i := range rest {
				_, _ = nb.Bridge.InsertChain(rest[i : i+1])
			}
		}()
		wg.Wait()
		select {
		case msg := <-bad:
			c.Failf("C05/schedule-mismatch-concurrent", "%s", msg)
		default:
		}
		// and afterwards, single-threaded, from the cache the concurrent phase filled
		checkSchedule(c, nb, allTicks(nb), "after concurrent cold elections")
		if len(ticks) > 2 && workers >= 3 {
			c.NonTrivial()
		}
		c.R.Count("concurrent_election_queries", len(qs)*workers)
	})
}
