package props

// C16 — sync adopts only verified, strictly longer chains within the rollback window.
// Fault enumeration: every position of a delivered batch x every certain fault kind, each on a
// fresh copy of the follower's database; outcome compared with the decision the statement gives.

import (
	"fmt"
	"math/big"
	"testing"

	"github.com/zenon-network/go-zenon/chain/nom"
	"github.com/zenon-network/go-zenon/common/types"

	"verifharness/pbt"
	"verifharness/sim"
)

type c16env struct {
	c        *pbt.C
	h        *sim.Hist
	a, a2    *sim.Node
	tmpl     *sim.Node // stopped follower holding prefix+X
	view     *sim.Node // running copy of it, for lookups
	forkAt   uint64
	topX     uint64 // follower's frontier height
	topY     uint64
	topA     uint64 // producer A went on to topA >= topX
	baseDump string
	extra    *nom.AccountBlock
	poolX    []*nom.AccountBlock // what the producer's pool held when the follower was at its frontier
	faults   int
}

func (e *c16env) deliver(n *sim.Node, batch []*nom.DetailedMomentum) (idx int, err error, pan interface{}) {
	defer func() {
		if r := recover(); r != nil {
			pan = r
		}
	}()
	e.c.Checkpoint()
	idx, err = n.Bridge.InsertChain(batch)
	return
}

func onChain(n *sim.Node, m *nom.Momentum) bool {
	our, err := n.Chain.GetFrontierMomentumStore().GetMomentumByHeight(m.Height)
	return err == nil && our != nil && our.Hash == m.Hash
}

// expected outcome of delivering an honest batch to a node holding prefix+X
type c16expect struct {
	accept   bool // no error, chain advances to the batch's tip
	noop     bool // (0, nil), nothing changes
	refuse   bool // error, nothing changes
	tipOf    *sim.Node
	tip      uint64
	describe string
}

func (e *c16env) checkUnchanged(n *sim.Node, what string, key string) {
	if n.Height() != e.topX || n.Dump() != e.baseDump {
		e.c.Failf(key, "%s: the node left its chain (height %d -> %d) / changed its store", what, e.topX, n.Height())
	}
}

// checkEquals: n holds exactly ref's chain up to height tip.
func (e *c16env) checkEquals(n *sim.Node, ref *sim.Node, tip uint64, what, key string) {
	if n.Height() != tip {
		e.c.Failf(key, "%s: node is at height %d, expected %d", what, n.Height(), tip)
	}
	m, err := ref.Chain.GetFrontierMomentumStore().GetMomentumByHeight(tip)
	if err != nil || m == nil {
		panic("reference lacks height")
	}
	if n.Frontier().Hash != m.Hash {
		e.c.Failf(key, "%s: node frontier %v is not the expected momentum %v", what, n.Frontier().Identifier(), m.Identifier())
	}
	if x, y := n.Dump(), ref.DumpAt(m.Identifier()); x != y {
		e.c.Failf(key, "%s: store differs from the verified chain's state at height %d: %s", what, tip, firstDiff(y, x))
	}
}

func (e *c16env) honest(name string, batch []*nom.DetailedMomentum, ex c16expect) {
	c := e.c
	n := e.h.W.CloneStopped(e.tmpl, "B-"+name)
	defer e.h.W.Drop(n)
	pooled := 0
	if len(e.poolX) > 0 && c.Weighted("withPool", 1, 2) == 1 {
		// the follower has heard of the blocks waiting in the producer's pool (they acknowledge its own branch)
		if wb, err := sim.WireBlocks(e.poolX); err == nil {
			for _, blk := range wb {
				if n.Bridge.AddAccountBlocks([]*nom.AccountBlock{blk}) == nil {
					pooled++
				}
			}
		}
		if pooled > 0 {
			c.Class("follower-with-pooled-blocks")
		}
	}
	idx, err, pan := e.deliver(n, batch)
	c.Note("%s: honest batch of %d (%d..%d) -> idx=%d err=%v panic=%v [%s]", name, len(batch), batch[0].Momentum.Height,
		batch[len(batch)-1].Momentum.Height, idx, err, pan, ex.describe)
	if pan != nil {
		c.Failf("C16/panic/"+name, "InsertChain panicked on %s: %v", ex.describe, pan)
		return
	}
	switch {
	case ex.accept:
		if err != nil {
			c.Failf("C16/honest-refused/"+name, "%s refused: idx=%d err=%v", ex.describe, idx, err)
		}
		e.checkEquals(n, ex.tipOf, ex.tip, ex.describe, "C16/honest-state/"+name)
	case ex.noop:
		if err != nil || idx != 0 {
			c.Failf("C16/known-redelivery/"+name, "%s: idx=%d err=%v", ex.describe, idx, err)
		}
		e.checkUnchanged(n, ex.describe, "C16/known-redelivery/"+name)
	case ex.refuse:
		if err == nil {
			c.Failf("C16/should-refuse/"+name, "%s was not refused (node now at height %d)", ex.describe, n.Height())
		}
		e.checkUnchanged(n, ex.describe, "C16/should-refuse-state/"+name)
	}
	// nothing unverified is held, in the pool either: every pooled block acknowledges a momentum of the chain
	// the node is on now (a block acknowledging an abandoned momentum fails verification on every node)
	for _, blk := range n.Chain.GetAllUncommittedAccountBlocks() {
		m, _ := n.Chain.GetFrontierMomentumStore().GetMomentumByHash(blk.MomentumAcknowledged.Hash)
		if m == nil || m.Height != blk.MomentumAcknowledged.Height {
			c.Failf("C16/holds-unverified-pool-block/"+name, "after %s the node's pool holds block %v/%d acknowledging momentum %v, which is not on the chain the node is on",
				ex.describe, blk.Address, blk.Height, blk.MomentumAcknowledged)
		}
	}
	// nothing unverified is held: the resulting chain replays on a fresh node
	if c.Weighted("replayCheck", 2, 1) == 1 && n.Height() > 1 {
		f := e.h.W.AddNode("F", false)
		if _, err := f.Bridge.InsertChain(n.Range(2, n.Height())); err != nil {
			c.Failf("C16/holds-unverified/"+name, "the chain the node holds after %s does not replay on a fresh node: %v", ex.describe, err)
		}
		e.h.W.Drop(f)
	}
}

func (e *c16env) faulted(name string, batch []*nom.DetailedMomentum, ex c16expect, extension bool) {
	c := e.c
	start := 0
	for start < len(batch) && onChain(e.tmplView(), batch[start].Momentum) {
		start++
	}
	positions := []int{}
	for i := start; i < len(batch); i++ {
		positions = append(positions, i)
	}
	if len(positions) > 8 {
		// sample 8 positions, always including first and last
		keep := map[int]bool{positions[0]: true, positions[len(positions)-1]: true}
		for len(keep) < 8 {
			keep[positions[c.Pick("faultpos", len(positions))]] = true
		}
		var p2 []int
		for _, p := range positions {
			if keep[p] {
				p2 = append(p2, p)
			}
		}
		positions = p2
	}
	kinds := sim.CertainFaults
	if pbt.Tier() != "thorough" && len(positions)*len(kinds) > 40 {
		// quick tier: a drawn subset of kinds per position
		sub := []string{}
		for len(sub) < 4 {
			sub = append(sub, kinds[c.Pick("faultkind", len(kinds))])
		}
		kinds = sub
	}
	for _, i := range positions {
		for _, kind := range kinds {
			fm := sim.InjectFault(batch[i], kind, e.h.W.Keys, e.extra)
			if fm == nil {
				continue
			}
			fb := append([]*nom.DetailedMomentum{}, batch...)
			fb[i] = fm
			n := e.h.W.CloneStopped(e.tmpl, "Bf")
			idx, err, pan := e.deliver(n, fb)
			e.faults++
			c.NonTrivialItem(fmt.Sprintf("%s/%s/pos%d/len%d/fork%d", name, kind, i-start, len(batch)-start, e.topX-e.forkAt))
			what := fmt.Sprintf("%s with fault %s at position %d of %d (first unknown element %d)", ex.describe, kind, i, len(fb), start)
			func() {
				defer e.h.W.Drop(n)
				if pan != nil {
					c.Failf("C16/panic/"+name+"/"+kind, "InsertChain panicked on %s: %v", what, pan)
					return
				}
				if err == nil {
					c.Failf("C16/fault-accepted/"+kind, "%s: no error; node at height %d", what, n.Height())
					return
				}
				verified := uint64(i - start) // elements before the fault that are new and valid
				switch {
				case extension:
					// stops at the last verified element, reports the failing index
					e.checkEquals(n, e.a, e.topX+verified, what, "C16/fault-state/"+kind)
					if idx != i {
						c.Failf("C16/fault-index", "%s: reported index %d, failing element is %d", what, idx, i)
					}
				case ex.accept:
					// a fork that would have been adopted: a chain with an invalid element must not
					// make the node leave its own chain
					if n.Height() == e.topX && n.Dump() == e.baseDump {
						if idx != i {
							c.Failf("C16/fault-index", "%s: reported index %d, failing element is %d", what, idx, i)
						}
						// the same node is handed the chain again: the elements before the fault passed verification a
						// moment ago and were rolled back; now one of THEM carries a bad signature (same hash)
						if i > start && c.Weighted("secondDelivery", 1, 1) == 1 {
							j := start + c.Int("secondDelivery.pos", 0, i-start-1)
							if fm2 := sim.InjectFault(batch[j], "bad-signature", e.h.W.Keys, e.extra); fm2 != nil {
								fb2 := append([]*nom.DetailedMomentum{}, batch...)
								fb2[j] = fm2
								idx2, err2, pan2 := e.deliver(n, fb2)
								e.faults++
								c.Class("second-delivery-to-the-same-node")
								what2 := fmt.Sprintf("%s; then the same chain with a bad signature at position %d (which had verified and been rolled back in the first delivery)", what, j)
								if pan2 != nil {
									c.Failf("C16/panic/"+name+"/second-delivery", "InsertChain panicked on %s: %v", what2, pan2)
								}
								if err2 == nil {
									c.Failf("C16/fault-accepted/bad-signature/second-delivery", "%s: no error; node at height %d", what2, n.Height())
								}
								if n.Height() != e.topX || n.Dump() != e.baseDump {
									c.Failf("C16/fault-state/bad-signature/second-delivery", "%s: the node left its chain (height %d -> %d)", what2, e.topX, n.Height())
								}
								if idx2 != j {
									c.Failf("C16/fault-index", "%s: reported index %d, failing element is %d", what2, idx2, j)
								}
							}
						}
						return
					}
					// the verified part of the delivered chain (the elements before the fault) is itself a delivered
					// chain that passes verification: if it is strictly longer than the node's own branch the node
					// may be on it, exactly; in every other case it must have stayed (checked above)
					tip := e.forkAt + verified
					if tip > e.topX {
						okState := n.Height() == tip
						if okState {
							m, _ := e.a2.Chain.GetFrontierMomentumStore().GetMomentumByHeight(tip)
							okState = m != nil && n.Frontier().Hash == m.Hash && n.Dump() == e.a2.DumpAt(m.Identifier())
						}
						if !okState {
							c.Failf("C16/fault-state/"+kind, "%s: node is neither on its old chain nor on the verified (strictly longer) prefix of the delivered chain (height %d)", what, n.Height())
						}
						if idx != i {
							c.Failf("C16/fault-index", "%s: reported index %d, failing element is %d", what, idx, i)
						}
						c.Class("fault-behind-a-longer-verified-prefix")
						return
					}
					c.Failf("C16/rollback-before-verify", "%s: the node left its chain (height %d -> %d) for a delivered chain whose verified part (up to height %d) is not longer than its own", what, e.topX, n.Height(), tip)
				default:
					// refused anyway (not longer / too deep / gap / all known): nothing may change
					e.checkUnchanged(n, what, "C16/fault-state/"+kind)
				}
			}()
		}
	}
}

func (e *c16env) tmplView() *sim.Node { return e.view }

func TestC16(t *testing.T) {
	pbt.Check(t, "C16", func(c *pbt.C) {
		h := sim.NewHist(c, genSpec(c), genWorldOpts(c))
		h.Intents = sim.DefaultIntents()
		e := &c16env{c: c, h: h, a: h.A}
		grow(c, h, "prefix", c.Int("prefix.m", 1, pbt.Scale(10, 30)), pbt.Scale(12, 25))
		if h.Dead {
			c.Excluded("C09-preflight-abort")
			return
		}
		e.forkAt = h.A.Height()
		e.a2 = h.W.AddNode("A2", true)
		if e.forkAt > 1 {
			if _, err := e.a2.Bridge.InsertChain(h.A.Range(2, e.forkAt)); err != nil {
				c.Failf("C16/setup", "second producer cannot sync the prefix: %v", err)
			}
		}
		h2 := sim.NewHistOn(c, h.W, e.a2, h)
		// branch X: the follower's own chain beyond the fork point (depth 0 = no fork)
		depth := 0
		kind := c.Weighted("depth.kind", 2, 4, 2, 5)
		switch kind {
		case 1:
			depth = c.Int("depth.small", 1, 6)
		case 2:
			depth = c.Int("depth.mid", 7, 29)
		case 3:
			// the edge of the window, exactly: 30 is the deepest adoptable fork, 31 the first refused one
			depth = []int{29, 30, 30, 31, 31, 31, 32}[c.Pick("depth.edge", 7)]
		}
		if depth > 0 {
			if kind == 3 {
				grow(c, h, "x", depth, 0) // exactly `depth` momentums
			} else {
				grow(c, h, "x", depth, min(depth, 10))
				// grow produces at least `depth` momentums; use the actual length
			}
		}
		if h.Dead {
			c.Excluded("C09-preflight-abort")
			return
		}
		e.topX = h.A.Height()
		lenX := int(e.topX - e.forkAt)
		// the follower
		b := h.W.AddNode("B", false)
		if e.topX > 1 {
			if _, err := b.Bridge.InsertChain(h.A.Range(2, e.topX)); err != nil {
				c.Failf("C16/setup", "follower cannot sync its own chain: %v", err)
			}
		}
		e.baseDump = b.Dump()
		// blocks waiting in the producer's pool at this moment: they acknowledge the follower's branch
		for i, k := 0, c.Int("poolX.transfers", 0, 3); i < k; i++ {
			h.ActTransfer()
		}
		for _, blk := range h.A.Chain.GetAllUncommittedAccountBlocks() {
			if blk.BlockType != nom.BlockTypeContractSend {
				e.poolX = append(e.poolX, blk)
			}
		}
		b.Stop()
		e.tmpl = b
		view := h.W.CloneStopped(b, "Bview")
		e.view = view
		// producer goes on (extension material)
		ext := c.Int("ext", 1, 6)
		grow(c, h, "ext", ext, 8)
		if h.Dead {
			c.Excluded("C09-preflight-abort")
			return
		}
		e.topA = h.A.Height()
		// a valid account block that is in no momentum yet
		if blk, err := h.A.Transfer(h.Users[0], h.Users[1], h.Pools.Tokens[0], bigOne, nil); err == nil {
			e.extra = blk
		}
		// branch Y
		if lenX > 0 {
			lenY := lenX + []int{-1, 0, 1, 3, 1}[c.Pick("leny", 5)]
			if kind == 3 && c.Weighted("leny.longer", 1, 2) == 1 {
				lenY = lenX + 1 + c.Int("leny.more", 0, 2)
			}
			if lenY < 1 {
				lenY = 1
			}
			grow(c, h2, "y", lenY, min(lenY, 10))
			if h2.Dead {
				c.Excluded("C09-preflight-abort")
				return
			}
			e.topY = e.a2.Height()
			// the branches may coincide for their first momentums (same slot, same content): the
			// real fork point is where the hashes part
			for e.forkAt < e.topX && e.forkAt < e.topY && sameAt(h.A, e.a2, e.forkAt+1) {
				e.forkAt++
			}
			lenX = int(e.topX - e.forkAt)
			if e.forkAt == e.topY {
				lenX = 0 // Y is a prefix of the follower's chain: nothing to deliver as a fork
			}
		}
		// the extra block of the "extra-account-block" fault must be valid on its own wherever it is delivered: a block
		// of an account that none of the branches touched since the fork point, acknowledging the fork point
		if fm, err := h.A.Chain.GetFrontierMomentumStore().GetMomentumByHeight(e.forkAt); err == nil && fm != nil {
			heightAt := func(n *sim.Node, u types.Address) uint64 {
				return n.Chain.GetFrontierAccountStore(u).Identifier().Height
			}
			base := h.A.Chain.GetMomentumStore(fm.Identifier())
			for _, u := range h.Users {
				kp := h.W.Keys.ByAddr[u]
				if kp == nil || base == nil {
					continue
				}
				h0 := base.GetAccountStore(u).Identifier().Height
				if heightAt(h.A, u) != h0 || (e.a2 != nil && e.topY > 0 && heightAt(e.a2, u) != h0) {
					continue
				}
				var tx *nom.AccountBlockTransaction
				func() {
					defer func() { _ = recover() }()
					tx, err = h.A.Sup.GenerateFromTemplate(&nom.AccountBlock{BlockType: nom.BlockTypeUserSend, Address: u, ToAddress: h.Users[0], TokenStandard: types.ZnnTokenStandard,
						Amount: big.NewInt(0), MomentumAcknowledged: fm.Identifier()}, kp.Signer)
				}()
				if err == nil && tx != nil {
					e.extra = tx.Block
					c.Class("extra-block-valid-everywhere")
					break
				}
			}
		}
		c.Note("prefix to %d, follower at %d (own branch of %d), producer at %d, competing branch to %d", e.forkAt, e.topX, lenX, e.topA, e.topY)
		c.Class("fork-depth-" + bucket16(lenX))

		// ---- variants ----
		extBatch := h.A.Range(e.topX+1, e.topA)
		exAccept := c16expect{accept: true, tipOf: h.A, tip: e.topA, describe: fmt.Sprintf("pure extension of %d", len(extBatch))}
		e.honest("extension", extBatch, exAccept)
		e.faulted("extension", extBatch, exAccept, true)

		if e.topX > 2 {
			k := uint64(c.Int("overlap.k", 1, int(min64(4, e.topX-2))))
			ob := h.A.Range(e.topX-k+1, e.topA)
			ex := c16expect{accept: true, tipOf: h.A, tip: e.topA, describe: fmt.Sprintf("extension overlapping %d known momentums", k)}
			e.honest("overlap", ob, ex)
			if c.Bool("overlap.faults") {
				e.faulted("overlap", ob, ex, true)
			}
			db := h.A.Range(e.topX-k+1, e.topX)
			e.honest("duplicate", db, c16expect{noop: true, describe: fmt.Sprintf("%d already known momentums", k)})
		}
		if len(extBatch) >= 2 {
			gb := extBatch[1:]
			ex := c16expect{refuse: true, describe: "batch with a gap after the frontier"}
			e.honest("gap", gb, ex)
			c.Class("gap-batch")
		}
		if lenX > 0 {
			yb := e.a2.Range(e.forkAt+1, e.topY)
			var ex c16expect
			switch {
			case lenX > 30:
				ex = c16expect{refuse: true, describe: fmt.Sprintf("fork at depth %d (> 30)", lenX)}
				c.Class("fork-too-deep")
			case e.topY <= e.topX:
				ex = c16expect{refuse: true, describe: fmt.Sprintf("fork at depth %d ending at %d <= frontier %d", lenX, e.topY, e.topX)}
				c.Class("fork-not-longer")
			default:
				ex = c16expect{accept: true, tipOf: e.a2, tip: e.topY, describe: fmt.Sprintf("strictly longer fork at depth %d", lenX)}
				c.Class("fork-adoptable")
			}
			e.honest("fork", yb, ex)
			e.faulted("fork", yb, ex, false)
			if e.forkAt > 2 && c.Bool("forkWithKnownPrefix") {
				k := uint64(c.Int("fork.k", 1, int(min64(8, e.forkAt-2))))
				yb2 := e.a2.Range(e.forkAt-k+1, e.topY)
				ex2 := ex
				ex2.describe += fmt.Sprintf(" preceded by %d known momentums", k)
				e.honest("fork-known-prefix", yb2, ex2)
				if c.Bool("forkWithKnownPrefix.faults") {
					e.faulted("fork-known-prefix", yb2, ex2, false)
				}
			}
		}
		c.R.Count("fault_deliveries", e.faults)
		if e.faults > 0 {
			c.NonTrivial()
		}
	})
}

func sameAt(a, b *sim.Node, h uint64) bool {
	x, _ := a.Chain.GetFrontierMomentumStore().GetMomentumByHeight(h)
	y, _ := b.Chain.GetFrontierMomentumStore().GetMomentumByHeight(h)
	return x != nil && y != nil && x.Hash == y.Hash
}

func bucket16(n int) string {
	switch {
	case n == 0:
		return "0"
	case n <= 6:
		return "1-6"
	case n <= 28:
		return "7-28"
	case n <= 30:
		return "29-30"
	default:
		return ">30"
	}
}
