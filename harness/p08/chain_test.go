package p08

// C08 (chain level) — a producer world generates momentums with several account blocks; a
// follower node runs on a leveldb manager over the recording storage and receives them one at
// a time through the chain bridge. For every delivered momentum and for every rollback
// (chain.RollbackTo by one momentum) all crash points of that operation are enumerated: the
// crash state is reopened as a fresh node (chain.Init must succeed), must show the follower's
// state before or after that momentum, and after re-delivery of the producer's momentums must
// end in the producer's state.

import (
	"fmt"
	"os"
	"strings"
	"testing"
	"time"

	"github.com/zenon-network/go-zenon/chain/nom"
	"github.com/zenon-network/go-zenon/common/db"
	"github.com/zenon-network/go-zenon/common/types"

	"verifharness/pbt"
	"verifharness/sim"
)

type chainCase struct {
	c       *pbt.C
	h       *sim.Hist
	all     []*nom.DetailedMomentum // producer momentums 2..top
	top     uint64
	final   string // producer's dump at top
	idAt    map[uint64]types.HashHeight
	nodeSeq int
}

type chainOp struct {
	kind   string // "commit" | "rollback"
	height uint64 // momentum added / removed
	blocks int
	nkeys  int
	descr  string
	base   *memState
	ops    []sop
	before observation
	after  observation
	ids    []types.HashHeight
	minH   uint64
	maxH   uint64
	seed   int
}

// window returns the ids and heights observed around momentum ht.
func (cc *chainCase) window(ht uint64) (ids []types.HashHeight, minH, maxH uint64) {
	lo := uint64(1)
	if ht > 2 {
		lo = ht - 2
	}
	for x := lo; x <= ht; x++ {
		ids = append(ids, cc.idAt[x])
	}
	minH = lo
	if minH < 2 {
		minH = 2 // the genesis patch is large and never touched
	}
	return ids, minH, ht + 1
}

func countLines(s string) int {
	if strings.HasPrefix(s, "<") {
		return 0
	}
	return strings.Count(s, "\n")
}

// startNode opens a node on a reopened manager; a panic or error of chain.Init is returned.
func (cc *chainCase) startNode(m db.Manager) (n *sim.Node, failure string) {
	cc.nodeSeq++
	failure = guard(func() string {
		var err error
		n, err = sim.NewNode(sim.NewGenesis(cc.h.W.Cfg), cc.h.W.Keys, sim.NodeOpts{Name: fmt.Sprintf("R%d", cc.nodeSeq), Mgr: m})
		if err != nil {
			n = nil
			return "chain.Init: " + err.Error()
		}
		return ""
	})
	return
}

// redeliver hands the producer's momentums from height `from` to the top to n (the bridge
// skips the ones n already has) and compares the final state with the producer's.
func (cc *chainCase) redeliver(n *sim.Node, from uint64) string {
	return guard(func() string {
		batch := sim.WireMomentums(cc.all[from-2:])
		if _, err := n.Bridge.InsertChain(batch); err != nil {
			return fmt.Sprintf("re-delivering momentums %d..%d fails: %v", from, cc.top, err)
		}
		if got := n.Height(); got != cc.top {
			return fmt.Sprintf("after re-delivery the node is at height %d, the producer at %d", got, cc.top)
		}
		if got := n.Dump(); got != cc.final {
			return fmt.Sprintf("after re-delivering momentums %d..%d the store differs from the producer's:%s", from, cc.top, lineDiff(cc.final, got, 5))
		}
		return ""
	})
}

func (cc *chainCase) crashPoint(e *chainOp, k, tornAt int) {
	c := cc.c
	total := len(e.ops)
	where := fmt.Sprintf("crash point %d of %d", k, total)
	if tornAt > 0 {
		where = fmt.Sprintf("crash inside storage call %d of %d (write cut after %d of %d bytes)", k, total, tornAt, len(e.ops[k-1].data))
	} else if k > 0 {
		where += fmt.Sprintf(" (just after %v)", e.ops[k-1])
	}
	tornKey := "C08/chain-torn-" + e.kind
	c.R.Count("crash_points", 1)
	if ((k > 0 && k < total) || tornAt > 0) && e.nkeys >= 2 {
		c.NonTrivial()
		suffix := ""
		if tornAt > 0 {
			suffix = "-torn"
		}
		c.NonTrivialItem(fmt.Sprintf("chain-%s/keys=%d/k=%d%s/of=%d", e.kind, e.nkeys, k, suffix, total))
		c.R.Count("crash_points_nontrivial", 1)
	}
	m, failure := openCrash(crashState(e.base, e.ops, k, tornAt))
	if failure != "" {
		c.R.Count("torn/chain-"+e.kind+"/reopen-fails", 1)
		c.Failf(tornKey, "%s; %s: the store cannot be reopened: %s", e.descr, where, failure)
		return
	}
	stopped := false
	stopMgr := func() {
		if !stopped {
			stopped = true
			_ = guard(func() string { _ = m.Stop(); return "" })
		}
	}
	defer stopMgr()
	got := observe(m, e.ids, e.minH, e.maxH)
	at := ""
	switch {
	case got.equal(e.before):
		at = "before"
	case got.equal(e.after):
		at = "after"
	}
	torn := at == ""
	if torn {
		kind := tornKind(got, e.before, e.after)
		c.R.Count("torn/chain-"+e.kind+"/"+kind, 1)
		c.Class("torn-state-seen")
		if strings.HasPrefix(kind, "patch-record-only") {
			tornKey += "/patch-record-only"
		}
		c.Failf(tornKey, "%s; %s: the reopened store is neither the follower's state before nor after [%s]: %s; %d storage calls: %s",
			e.descr, where, kind, describeAgainst(got, e.before, e.after), total, clip(fmtOps(e.ops), 600))
		// known finding: tolerated; what follows on this crash state is attributed to it
	} else {
		c.R.Count("recovered/chain-"+e.kind+"/"+at, 1)
	}
	n, failure := cc.startNode(m)
	if n == nil {
		if torn {
			if os.Getenv("VERIF_C08_DEBUG") != "" {
				fmt.Fprintf(os.Stderr, "C08DEBUG %s; %s: torn, then node does not start: %s\n", e.descr, where, clip(failure, 400))
			}
			c.R.Count("torn_then/chain-"+e.kind+"/init-fails", 1)
			return
		}
		c.Failf("C08/chain-init-fails", "%s; %s: the store reopened in the state %s the operation, but the node does not start: %s", e.descr, where, at, failure)
		return
	}
	defer func() { stopped = true; _ = guard(func() string { n.Stop(); return "" }) }()
	// re-deliver: from the examined momentum on (a rollback target keeps everything below)
	bad := cc.redeliver(n, e.height)
	if torn {
		if bad != "" {
			if os.Getenv("VERIF_C08_DEBUG") != "" {
				fmt.Fprintf(os.Stderr, "C08DEBUG %s; %s: torn, then: %s\n", e.descr, where, clip(bad, 700))
			}
			c.R.Count("torn_then/chain-"+e.kind+"/continue-differs", 1)
		} else {
			c.R.Count("torn_then/chain-"+e.kind+"/heals", 1)
		}
		return
	}
	if bad != "" {
		c.Failf("C08/chain-continue-differs", "%s; %s: reopened in the state %s the operation, node started, but %s", e.descr, where, at, bad)
	}
	c.R.Count("continuations_checked", 1)
}

func (cc *chainCase) enumerate(e *chainOp) {
	c := cc.c
	total := len(e.ops)
	c.R.Count("operations_examined/chain-"+e.kind, 1)
	c.R.Count("storage_writes_per_op_sum/chain-"+e.kind, total)
	c.Class(fmt.Sprintf("chain-%s-with-%s-storage-calls", e.kind, bucketChain(total)))
	for k := 0; k <= total; k++ {
		cc.crashPoint(e, k, 0)
		if k >= 1 && e.ops[k-1].kind == opWrite && len(e.ops[k-1].data) >= 2 {
			cc.crashPoint(e, k, tornOffset(e.seed, k, len(e.ops[k-1].data)))
		}
	}
}

func bucketBlocks(n int) string {
	switch {
	case n <= 1:
		return fmt.Sprint(n)
	case n <= 4:
		return "2-4"
	case n <= 8:
		return "5-8"
	default:
		return "9+"
	}
}

func bucketChain(n int) string {
	switch {
	case n <= 1:
		return "1"
	case n <= 10:
		return "2-10"
	case n <= 30:
		return "11-30"
	case n <= 80:
		return "31-80"
	default:
		return "81+"
	}
}

func TestC08Chain(t *testing.T) {
	pbt.Check(t, "C08", func(c *pbt.C) {
		spec := sim.DefaultSpec(c.Int("spec.pillars", 2, 3), c.Int("spec.users", 3, 5))
		for i := 0; i < 3; i++ {
			spec.Fusions = append(spec.Fusions, sim.FusionSpec{Owner: sim.UserKey(0).Address, Beneficiary: sim.ExtraKey(i).Address, Amount: 2000,
				Id: types.NewHash([]byte(fmt.Sprintf("extra-fusion-%d", i)))})
		}
		h := sim.NewHist(c, spec, sim.WorldOpts{FastLocks: true, EpochDuration: 1200 * time.Second})
		h.Intents = sim.DefaultIntents()
		nm := c.Int("momentums", 2, pbt.Scale(4, 9))
		maxBlocks := pbt.Scale(8, 20)
		for i := 0; i < nm && !h.Dead; i++ {
			nb := c.Int("blocks", 1, maxBlocks)
			if c.Weighted("bigMomentum", 5, 1) == 1 {
				// a momentum whose patch is several leveldb journal blocks long
				nb = c.Int("bigBlocks", 18, 45)
			}
			for j := 0; j < nb && !h.Dead; j++ {
				switch c.Weighted("act", 5, 3, 1) {
				case 0:
					h.ActTransfer()
				case 1:
					h.ActReceive()
				default:
					h.ActIntent()
				}
			}
			h.Produce(c.Weighted("skip", 5, 1))
		}
		if h.Dead {
			return
		}
		cc := &chainCase{c: c, h: h, top: h.A.Height(), idAt: map[uint64]types.HashHeight{}}
		cc.all = h.A.Range(2, cc.top)
		if uint64(len(cc.all)) != cc.top-1 {
			c.Failf("C08/chain-setup", "producer served %d of %d momentums", len(cc.all), cc.top-1)
		}
		cc.final = h.A.Dump()
		cc.idAt[1] = h.A.Chain.GetGenesisMomentum().Identifier()
		for _, d := range cc.all {
			cc.idAt[d.Momentum.Height] = d.Momentum.Identifier()
		}

		stor := newRecStorage(nil, true)
		mgr := db.NewLevelDBManagerFromStorage(stor, "c08-follower")
		f, failure := cc.startNode(mgr)
		if f == nil {
			_ = guard(func() string { _ = mgr.Stop(); return "" })
			c.Failf("C08/chain-setup", "follower does not start on an empty store: %s", failure)
		}
		c.Cleanup(func() { f.Stop() })

		examine := func(kind string, ht uint64, blocks int, run func() error) {
			ids, minH, maxH := cc.window(ht)
			e := &chainOp{kind: kind, height: ht, blocks: blocks, ids: ids, minH: minH, maxH: maxH, seed: c.Int("torn.seed", 0, 9999)}
			n0, base := stor.mark()
			e.base = base
			e.before = observe(f.Mgr, ids, minH, maxH)
			c.Checkpoint()
			if err := run(); err != nil {
				c.Failf("C08/chain-setup", "crash-free follower: %s of momentum %d fails: %v", kind, ht, err)
			}
			e.ops = stor.since(n0)
			e.after = observe(f.Mgr, ids, minH, maxH)
			src := e.after
			if kind == "rollback" {
				src = e.before
			}
			e.nkeys = countLines(src.get(fmt.Sprintf("redo-patch@%d", ht)))
			e.descr = fmt.Sprintf("follower at height %d, %s of momentum %d (%d account blocks, patch of %d keys)", ht-1, kind, ht, blocks, e.nkeys)
			if kind == "rollback" {
				e.descr = fmt.Sprintf("follower at height %d, rollback of momentum %d (%d account blocks, patch of %d keys)", ht, ht, blocks, e.nkeys)
			}
			c.Note("%s: %d storage calls", e.descr, len(e.ops))
			c.Class(fmt.Sprintf("momentum-with-%s-account-blocks", bucketBlocks(blocks)))
			c.Step()
			cc.enumerate(e)
		}

		for i, d := range cc.all {
			i, d := i, d
			examine("commit", d.Momentum.Height, len(d.AccountBlocks), func() error {
				_, err := f.Bridge.InsertChain(sim.WireMomentums(cc.all[i : i+1]))
				if err == nil && f.Height() != d.Momentum.Height {
					err = fmt.Errorf("follower is at height %d", f.Height())
				}
				return err
			})
		}
		if got := f.Dump(); got != cc.final {
			c.Failf("C08/chain-setup", "crash-free follower differs from the producer:%s", lineDiff(cc.final, got, 5))
		}
		// rollbacks, one momentum at a time (RollbackTo pops momentum by momentum)
		depth := c.Int("rollback.depth", 1, int(min64(3, cc.top-1)))
		for r := 0; r < depth; r++ {
			ht := cc.top - uint64(r)
			target := cc.idAt[ht-1]
			examine("rollback", ht, len(cc.all[ht-2].AccountBlocks), func() error {
				ins := f.Chain.AcquireInsert("c08 rollback")
				defer ins.Unlock()
				return f.Chain.RollbackTo(ins, target)
			})
		}
		c.Class(fmt.Sprintf("rollback-depth-%d", depth))
	})
}

func min64(a, b uint64) uint64 {
	if a < b {
		return a
	}
	return b
}
