package p08

// Observation of a versioned store through its public surface: frontier pointer, logical
// key space of the frontier, stored redo patch and undo patch per height, logical key space
// of the historical view of every id. Two stores are "logically equal" iff their
// observations over the same (ids, heights) are equal.

import (
	"encoding/hex"
	"fmt"
	"strings"

	"github.com/zenon-network/go-zenon/common/db"
	"github.com/zenon-network/go-zenon/common/types"
)

type obsItem struct {
	name string
	val  string
}

type observation []obsItem

// guard runs f and converts a panic of the code under observation into a value, so that a
// torn store is reported as a difference instead of ending the enumeration.
func guard(f func() string) (s string) {
	defer func() {
		if p := recover(); p != nil {
			msg := fmt.Sprintf("%v", p)
			if len(msg) > 160 {
				msg = msg[:160]
			}
			s = "<panic: " + msg + ">"
		}
	}()
	return f()
}

// dumpDB is db.DebugDB (same traversal, same rule for nil values, same line format) with a
// builder instead of quadratic string concatenation.
func dumpDB(d db.DB) string {
	if d == nil {
		return "<nil>"
	}
	it := d.NewIterator([]byte{})
	defer it.Release()
	var b strings.Builder
	for it.Next() {
		v := it.Value()
		if v == nil {
			continue
		}
		b.WriteString(hex.EncodeToString(it.Key()))
		b.WriteString(" - ")
		b.WriteString(hex.EncodeToString(v))
		b.WriteByte('\n')
	}
	if err := it.Error(); err != nil {
		return "<iterator error: " + err.Error() + ">"
	}
	return b.String()
}

func dumpPatch(p db.Patch) string {
	if p == nil {
		return "<none>"
	}
	return db.DebugPatch(p)
}

func idName(id types.HashHeight) string {
	return fmt.Sprintf("%d/%s", id.Height, id.Hash.String()[:8])
}

// observe reads everything the property speaks about. heights: 1..maxH; ids: every id whose
// historical view is to be read (ids that are not on the chain must read as <nil>).
func observe(m db.Manager, ids []types.HashHeight, minH, maxH uint64) observation {
	var o observation
	o = append(o, obsItem{"frontier-pointer", guard(func() string { return idName(db.GetFrontierIdentifier(m.Frontier())) })})
	o = append(o, obsItem{"keys", guard(func() string { return dumpDB(m.Frontier()) })})
	for h := minH; h <= maxH; h++ {
		h := h
		o = append(o, obsItem{fmt.Sprintf("redo-patch@%d", h), guard(func() string { return dumpPatch(m.GetPatch(types.HashHeight{Height: h})) })})
		o = append(o, obsItem{fmt.Sprintf("undo-patch@%d", h), guard(func() string { return dumpPatch(db.VerifRollbackPatch(m, h)) })})
	}
	for _, id := range ids {
		id := id
		o = append(o, obsItem{"view@" + idName(id), guard(func() string { return dumpDB(m.Get(id)) })})
	}
	return o
}

func (o observation) equal(p observation) bool {
	if len(o) != len(p) {
		return false
	}
	for i := range o {
		if o[i] != p[i] {
			return false
		}
	}
	return true
}

// diffNames lists the sections in which o differs from p.
func (o observation) diffNames(p observation) []string {
	var out []string
	for i := range o {
		if i >= len(p) || o[i] != p[i] {
			out = append(out, o[i].name)
		}
	}
	return out
}

func (o observation) get(name string) string {
	for _, it := range o {
		if it.name == name {
			return it.val
		}
	}
	return "<not observed>"
}

// lineDiff describes how got differs from want (both "k - v\n" dumps): -line = missing, +line = extra.
func lineDiff(want, got string, max int) string {
	w := map[string]bool{}
	for _, l := range strings.Split(want, "\n") {
		if l != "" {
			w[l] = true
		}
	}
	var b strings.Builder
	n := 0
	for _, l := range strings.Split(got, "\n") {
		if l == "" {
			continue
		}
		if w[l] {
			delete(w, l)
			continue
		}
		if n < max {
			fmt.Fprintf(&b, " +[%s]", clip(l, 90))
		}
		n++
	}
	// remaining want lines in their original order
	for _, l := range strings.Split(want, "\n") {
		if l != "" && w[l] {
			if n < max {
				fmt.Fprintf(&b, " -[%s]", clip(l, 90))
			}
			n++
		}
	}
	if n > max {
		fmt.Fprintf(&b, " ... (%d differing lines)", n)
	}
	if n == 0 {
		return " (same lines, different order)"
	}
	return b.String()
}

func clip(s string, n int) string {
	if len(s) > n {
		return s[:n] + "…"
	}
	return s
}

// describeAgainst explains got relative to the two admissible observations.
func describeAgainst(got, before, after observation) string {
	var b strings.Builder
	db_ := got.diffNames(before)
	da := got.diffNames(after)
	fmt.Fprintf(&b, "found frontier-pointer=%s (before: %s, after: %s); differs from BEFORE in %v; differs from AFTER in %v;",
		got.get("frontier-pointer"), before.get("frontier-pointer"), after.get("frontier-pointer"), db_, da)
	show := func(tag string, names []string, ref observation) {
		for i, n := range names {
			if i >= 3 {
				break
			}
			fmt.Fprintf(&b, " {%s vs %s:%s}", n, tag, lineDiff(ref.get(n), got.get(n), 4))
		}
	}
	show("before", db_, before)
	show("after", da, after)
	return b.String()
}

// tornKind names what is wrong with an inadmissible observation (for keys / counters / report).
// "patch-record-only": frontier pointer, keys and every view are those of an admissible state
// and the only deviation is a redo/undo record stored for a height above the frontier pointer
// found (nothing in the node reads such a record; the next commit at that height overwrites it).
func tornKind(got, before, after observation) string {
	fh := uint64(0)
	fmt.Sscanf(got.get("frontier-pointer"), "%d/", &fh)
	strayOnly := func(names []string) bool {
		for _, n := range names {
			var h uint64
			if _, err := fmt.Sscanf(n, "redo-patch@%d", &h); err != nil {
				if _, err := fmt.Sscanf(n, "undo-patch@%d", &h); err != nil {
					return false
				}
			}
			if h <= fh {
				return false
			}
		}
		return true
	}
	db_ := got.diffNames(before)
	da := got.diffNames(after)
	switch {
	case strayOnly(db_):
		return "patch-record-only(otherwise-before)"
	case strayOnly(da):
		return "patch-record-only(otherwise-after)"
	case got.get("frontier-pointer") == before.get("frontier-pointer"):
		if got.get("keys") == before.get("keys") {
			return "old-pointer-old-keys-but-patches-or-views-wrong"
		}
		return "old-pointer-with-changed-keys"
	case got.get("frontier-pointer") == after.get("frontier-pointer"):
		if got.get("keys") == after.get("keys") {
			return "new-pointer-new-keys-but-patches-or-views-wrong"
		}
		return "new-pointer-with-keys-missing"
	default:
		return "other"
	}
}
