package p08

// Recording goleveldb storage for C08.
//
// The storage keeps every file in memory and appends one entry to a call log for every
// mutating storage call (file create / write / sync / rename / remove / SetMeta). A crash
// state is "the storage after the first k logged calls": it is materialised from a deep copy
// of a snapshot plus the logged calls, so a crash copy never shares a buffer with the live
// storage. Fault injection therefore happens *below* leveldb: un-batched or re-ordered writes
// of the commit code are all visible as separate crash points.

import (
	"bytes"
	"fmt"
	"os"
	"sort"
	"sync"

	"github.com/syndtr/goleveldb/leveldb/storage"
)

type opKind uint8

const (
	opCreate opKind = iota
	opWrite
	opSync
	opRename
	opRemove
	opSetMeta
)

func (k opKind) String() string {
	return [...]string{"create", "write", "sync", "rename", "remove", "setmeta"}[k]
}

// sop is one logged mutating storage call. data is an immutable private copy.
type sop struct {
	kind opKind
	fd   storage.FileDesc
	fd2  storage.FileDesc
	data []byte
}

func (o sop) String() string {
	switch o.kind {
	case opWrite:
		return fmt.Sprintf("write(%v,%dB)", o.fd, len(o.data))
	case opRename:
		return fmt.Sprintf("rename(%v->%v)", o.fd, o.fd2)
	default:
		return fmt.Sprintf("%v(%v)", o.kind, o.fd)
	}
}

// memState is the content of a storage: files and the CURRENT pointer.
type memState struct {
	files   map[storage.FileDesc][]byte
	meta    storage.FileDesc
	hasMeta bool
}

func newMemState() *memState { return &memState{files: map[storage.FileDesc][]byte{}} }

// clone is a deep copy: no byte of the result is shared with s.
func (s *memState) clone() *memState {
	out := &memState{files: make(map[storage.FileDesc][]byte, len(s.files)), meta: s.meta, hasMeta: s.hasMeta}
	for fd, b := range s.files {
		cp := make([]byte, len(b))
		copy(cp, b)
		out.files[fd] = cp
	}
	return out
}

func (s *memState) apply(o sop) {
	switch o.kind {
	case opCreate:
		s.files[o.fd] = []byte{}
	case opWrite:
		// append-only: bytes already written are never modified in place; readers hold
		// capacity-limited slices (see Open) and clones are deep copies, so growing into
		// spare capacity is invisible to both
		s.files[o.fd] = append(s.files[o.fd], o.data...)
	case opSync:
	case opRename:
		if b, ok := s.files[o.fd]; ok {
			s.files[o.fd2] = b
			delete(s.files, o.fd)
		}
	case opRemove:
		delete(s.files, o.fd)
	case opSetMeta:
		s.meta, s.hasMeta = o.fd, true
	}
}

func (s *memState) size() int {
	n := 0
	for _, b := range s.files {
		n += len(b)
	}
	return n
}

// recStorage implements storage.Storage over a memState.
type recStorage struct {
	mu     sync.Mutex
	st     *memState
	log    []sop
	record bool
	locked bool
}

func newRecStorage(st *memState, record bool) *recStorage {
	if st == nil {
		st = newMemState()
	}
	return &recStorage{st: st, record: record}
}

func (s *recStorage) do(o sop) {
	s.mu.Lock()
	s.st.apply(o)
	if s.record {
		s.log = append(s.log, o)
	}
	s.mu.Unlock()
}

// mark returns the current log length together with a deep copy of the state at that instant.
func (s *recStorage) mark() (int, *memState) {
	s.mu.Lock()
	defer s.mu.Unlock()
	return len(s.log), s.st.clone()
}

func (s *recStorage) logLen() int {
	s.mu.Lock()
	defer s.mu.Unlock()
	return len(s.log)
}

// since returns the calls logged at positions [from, now).
func (s *recStorage) since(from int) []sop {
	s.mu.Lock()
	defer s.mu.Unlock()
	return append([]sop(nil), s.log[from:]...)
}

// crashState materialises "base followed by the first k calls of ops"; tornAt > 0 cuts the
// data of the k-th call (which must be a write) to its first tornAt bytes.
func crashState(base *memState, ops []sop, k int, tornAt int) *memState {
	st := base.clone()
	for i := 0; i < k; i++ {
		o := ops[i]
		if i == k-1 && tornAt > 0 && o.kind == opWrite && tornAt < len(o.data) {
			o.data = o.data[:tornAt]
		}
		st.apply(o)
	}
	return st
}

type recLock struct{ s *recStorage }

func (l recLock) Unlock() { l.s.mu.Lock(); l.s.locked = false; l.s.mu.Unlock() }

func (s *recStorage) Lock() (storage.Locker, error) {
	s.mu.Lock()
	defer s.mu.Unlock()
	if s.locked {
		return nil, storage.ErrLocked
	}
	s.locked = true
	return recLock{s}, nil
}
func (s *recStorage) Log(string) {}
func (s *recStorage) SetMeta(fd storage.FileDesc) error {
	if !storage.FileDescOk(fd) {
		return storage.ErrInvalidFile
	}
	s.do(sop{kind: opSetMeta, fd: fd})
	return nil
}
func (s *recStorage) GetMeta() (storage.FileDesc, error) {
	s.mu.Lock()
	defer s.mu.Unlock()
	if !s.st.hasMeta {
		return storage.FileDesc{}, os.ErrNotExist
	}
	if _, ok := s.st.files[s.st.meta]; !ok {
		return storage.FileDesc{}, os.ErrNotExist
	}
	return s.st.meta, nil
}
func (s *recStorage) List(ft storage.FileType) ([]storage.FileDesc, error) {
	s.mu.Lock()
	defer s.mu.Unlock()
	var l []storage.FileDesc
	for fd := range s.st.files {
		if fd.Type&ft != 0 {
			l = append(l, fd)
		}
	}
	sort.Slice(l, func(i, j int) bool {
		if l[i].Num != l[j].Num {
			return l[i].Num < l[j].Num
		}
		return l[i].Type < l[j].Type
	})
	return l, nil
}

type recReader struct{ *bytes.Reader }

func (recReader) Close() error { return nil }

func (s *recStorage) Open(fd storage.FileDesc) (storage.Reader, error) {
	if !storage.FileDescOk(fd) {
		return nil, storage.ErrInvalidFile
	}
	s.mu.Lock()
	defer s.mu.Unlock()
	b, ok := s.st.files[fd]
	if !ok {
		return nil, os.ErrNotExist
	}
	// written bytes are never modified in place (see apply), so the reader may alias them
	return recReader{bytes.NewReader(b[:len(b):len(b)])}, nil
}

type recWriter struct {
	s  *recStorage
	fd storage.FileDesc
}

func (w recWriter) Write(p []byte) (int, error) {
	cp := make([]byte, len(p))
	copy(cp, p)
	w.s.do(sop{kind: opWrite, fd: w.fd, data: cp})
	return len(p), nil
}
func (w recWriter) Close() error { return nil }
func (w recWriter) Sync() error  { w.s.do(sop{kind: opSync, fd: w.fd}); return nil }

func (s *recStorage) Create(fd storage.FileDesc) (storage.Writer, error) {
	if !storage.FileDescOk(fd) {
		return nil, storage.ErrInvalidFile
	}
	s.do(sop{kind: opCreate, fd: fd})
	return recWriter{s, fd}, nil
}
func (s *recStorage) Remove(fd storage.FileDesc) error {
	if !storage.FileDescOk(fd) {
		return storage.ErrInvalidFile
	}
	s.mu.Lock()
	_, ok := s.st.files[fd]
	s.mu.Unlock()
	if !ok {
		return os.ErrNotExist
	}
	s.do(sop{kind: opRemove, fd: fd})
	return nil
}
func (s *recStorage) Rename(a, b storage.FileDesc) error {
	if !storage.FileDescOk(a) || !storage.FileDescOk(b) {
		return storage.ErrInvalidFile
	}
	if a == b {
		return nil
	}
	s.mu.Lock()
	_, ok := s.st.files[a]
	s.mu.Unlock()
	if !ok {
		return os.ErrNotExist
	}
	s.do(sop{kind: opRename, fd: a, fd2: b})
	return nil
}
func (s *recStorage) Close() error { return nil }

func fmtOps(ops []sop) string {
	var b bytes.Buffer
	for i, o := range ops {
		if i > 0 {
			b.WriteString(" ")
		}
		fmt.Fprintf(&b, "%d:%v", i+1, o)
	}
	return b.String()
}
