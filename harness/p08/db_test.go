package p08

// C08 (db.Manager level) — committing or rolling back is atomic across a process crash.
//
// A generated history of commits and rollbacks runs on a leveldb manager over the recording
// storage. For every examined commit and rollback, every prefix of the storage calls issued
// by that operation (plus, for every write, the same prefix with that write cut short) is
// materialised as a fresh storage, reopened through the normal constructor path and compared
// with the state before and the state after the operation; then the interrupted work is
// continued and compared with the crash-free run.

import (
	"bytes"
	"fmt"
	"os"
	"sort"
	"strings"
	"testing"

	"github.com/zenon-network/go-zenon/common"
	"github.com/zenon-network/go-zenon/common/db"
	"github.com/zenon-network/go-zenon/common/types"

	"verifharness/pbt"
)

type mcommit struct {
	id, prev types.HashHeight
	data     []byte
}

func (c *mcommit) Identifier() types.HashHeight { return c.id }
func (c *mcommit) Previous() types.HashHeight   { return c.prev }
func (c *mcommit) Serialize() ([]byte, error)   { return c.data, nil }

type mtx struct {
	c *mcommit
	p db.Patch
}

func (t *mtx) GetCommits() []db.Commit { return []db.Commit{t.c} }
func (t *mtx) StealChanges() db.Patch  { p := t.p; t.p = nil; return p }

type kvWrite struct {
	key []byte
	val []byte
	del bool
}

// version is one commit of the reference model.
type version struct {
	id     types.HashHeight
	prev   types.HashHeight
	data   []byte
	writes []kvWrite
	state  map[string][]byte // user keys as of this version
}

func cloneMap(m map[string][]byte) map[string][]byte {
	out := make(map[string][]byte, len(m)+4)
	for k, v := range m {
		out[k] = v
	}
	return out
}

// fullMap is the complete logical key space of the store whose chain is `chain`: the user
// keys of the last version plus the bookkeeping entries (frontier pointer, height by hash,
// entry by height) of every version.
func fullMap(chain []*version) map[string][]byte {
	out := map[string][]byte{}
	if len(chain) == 0 {
		return out
	}
	last := chain[len(chain)-1]
	for k, v := range last.state {
		out[k] = v
	}
	out[string([]byte{0})] = last.id.Serialize()
	for _, v := range chain {
		out[string(append([]byte{1}, v.id.Hash.Bytes()...))] = common.Uint64ToBytes(v.id.Height)
		out[string(append([]byte{2}, common.Uint64ToBytes(v.id.Height)...))] = v.data
	}
	return out
}

func dumpMap(m map[string][]byte) string {
	keys := make([]string, 0, len(m))
	for k := range m {
		keys = append(keys, k)
	}
	sort.Strings(keys)
	var b strings.Builder
	for _, k := range keys {
		fmt.Fprintf(&b, "%x - %x\n", k, m[k])
	}
	return b.String()
}

func frontierOf(chain []*version) types.HashHeight {
	if len(chain) == 0 {
		return types.ZeroHashHeight
	}
	return chain[len(chain)-1].id
}

type mapReplayer struct{ m map[string][]byte }

func (r *mapReplayer) Put(k, v []byte) { r.m[string(k)] = append([]byte{}, v...) }
func (r *mapReplayer) Delete(k []byte) { delete(r.m, string(k)) }

func sameMap(a, b map[string][]byte) bool {
	if len(a) != len(b) {
		return false
	}
	for k, v := range a {
		if w, ok := b[k]; !ok || !bytes.Equal(v, w) {
			return false
		}
	}
	return true
}

// ---------------------------------------------------------------------------------------

var c8alphabet = []byte{0x00, 0x01, 0x7f, 0xff}

type dbHist struct {
	c       *pbt.C
	live    db.Manager
	stor    *recStorage
	chain   []*version
	counter int
	seen    []string // keys ever written, in first-use order
	seenSet map[string]bool
}

func (h *dbHist) newID(height uint64) types.HashHeight {
	h.counter++
	return types.HashHeight{Height: height, Hash: types.NewHash([]byte(fmt.Sprintf("c08-%d-%d", height, h.counter)))}
}

func (h *dbHist) genKey(label string) []byte {
	c := h.c
	if len(h.seen) > 0 && c.Weighted(label+".reuse", 1, 1) == 1 {
		return []byte(h.seen[c.Pick(label+".seen", len(h.seen))])
	}
	k := []byte{byte(0x10 + c.Int(label+".p", 0, 1))}
	n := c.Int(label+".len", 0, 2)
	for i := 0; i < n; i++ {
		k = append(k, c8alphabet[c.Pick(label+".b", len(c8alphabet))])
	}
	return k
}

func (h *dbHist) genVal(label string) []byte {
	c := h.c
	switch c.Weighted(label+".vk", 3, 3, 1) {
	case 0:
		return c.Bytes(label+".v", 1, 6)
	case 1:
		n := c.Int(label+".vlen", 7, 200)
		seed := c.Int(label+".vfill", 0, 255)
		v := make([]byte, n)
		for i := range v {
			v[i] = byte(seed + i)
		}
		return v
	default:
		return []byte{0} // one zero byte: collides with the store's own "exists"/"deleted" markers
	}
}

// genWrites draws 1..8 writes (puts, overwrites, deletes) and returns them with the number of
// distinct keys touched.
func (h *dbHist) genWrites(label string, state map[string][]byte) ([]kvWrite, int) {
	c := h.c
	n := c.Int(label+".n", 1, 8)
	var ws []kvWrite
	distinct := map[string]bool{}
	for i := 0; i < n; i++ {
		k := h.genKey(label + ".k")
		if !h.seenSet[string(k)] {
			h.seenSet[string(k)] = true
			h.seen = append(h.seen, string(k))
		}
		distinct[string(k)] = true
		if c.Weighted(label+".op", 3, 1) == 1 {
			ws = append(ws, kvWrite{key: k, del: true})
			if _, ok := state[string(k)]; ok {
				c.Class("delete-of-existing-key")
			} else {
				c.Class("delete-of-absent-key")
			}
		} else {
			v := h.genVal(label)
			ws = append(ws, kvWrite{key: k, val: v})
			if _, ok := state[string(k)]; ok {
				c.Class("overwrite")
			}
			if len(v) > 64 {
				c.Class("value>64B")
			}
		}
	}
	return ws, len(distinct)
}

func fmtWrites(ws []kvWrite) string {
	var b strings.Builder
	for i, w := range ws {
		if i > 0 {
			b.WriteString(", ")
		}
		if w.del {
			fmt.Fprintf(&b, "del %x", w.key)
		} else if len(w.val) > 8 {
			fmt.Fprintf(&b, "put %x=%x…(%dB)", w.key, w.val[:4], len(w.val))
		} else {
			fmt.Fprintf(&b, "put %x=%x", w.key, w.val)
		}
	}
	return b.String()
}

func applyTo(state map[string][]byte, ws []kvWrite) map[string][]byte {
	out := cloneMap(state)
	for _, w := range ws {
		if w.del {
			delete(out, string(w.key))
		} else {
			out[string(w.key)] = w.val
		}
	}
	return out
}

// addVersion commits v through the public path: view at the parent, writes, Changes, Add.
func addVersion(m db.Manager, v *version) error {
	view := m.Get(v.prev)
	if view == nil {
		return fmt.Errorf("Get(%v) returned no view", v.prev)
	}
	for _, w := range v.writes {
		var err error
		if w.del {
			err = view.Delete(w.key)
		} else {
			err = view.Put(w.key, w.val)
		}
		if err != nil {
			return err
		}
	}
	p, err := view.Changes()
	if err != nil {
		return err
	}
	return m.Add(&mtx{c: &mcommit{id: v.id, prev: v.prev, data: v.data}, p: p})
}

func (h *dbHist) newVersion(label string, parent []*version) (*version, int) {
	prevState := map[string][]byte{}
	if len(parent) > 0 {
		prevState = parent[len(parent)-1].state
	}
	ws, nkeys := h.genWrites(label, prevState)
	id := h.newID(uint64(len(parent)) + 1)
	v := &version{id: id, prev: frontierOf(parent), writes: ws, state: applyTo(prevState, ws),
		data: []byte(fmt.Sprintf("commit-%d-%s", id.Height, id.Hash.String()[:8]))}
	return v, nkeys
}

// modelCheck compares an observation of a crash-free store with the reference model.
func (h *dbHist) modelCheck(o observation, chain []*version, ids []types.HashHeight, what string) {
	c := h.c
	if got, want := o.get("frontier-pointer"), idName(frontierOf(chain)); got != want {
		c.Failf("C08/crashfree-model-mismatch", "%s: frontier pointer %s, reference model %s", what, got, want)
	}
	if got, want := o.get("keys"), dumpMap(fullMap(chain)); got != want {
		c.Failf("C08/crashfree-model-mismatch", "%s: key space differs from the reference model:%s", what, lineDiff(want, got, 6))
	}
	for _, id := range ids {
		want := "<nil>"
		for i, v := range chain {
			if v.id == id {
				want = dumpMap(fullMap(chain[:i+1]))
			}
		}
		if got := o.get("view@" + idName(id)); got != want {
			c.Failf("C08/crashfree-model-mismatch", "%s: view at %s differs from the reference model:%s", what, idName(id), lineDiff(want, got, 6))
		}
	}
}

// patchSemantics: on a crash-free store the redo patch of height h turns state h-1 into state
// h, the undo patch turns state h into state h-1, and nothing is stored above the frontier.
func (h *dbHist) patchSemantics(m db.Manager, chain []*version, what string) {
	c := h.c
	for i := range chain {
		ht := uint64(i + 1)
		lo, hi := fullMap(chain[:i]), fullMap(chain[:i+1])
		redo := m.GetPatch(types.HashHeight{Height: ht})
		undo := db.VerifRollbackPatch(m, ht)
		if redo == nil || undo == nil {
			c.Failf("C08/crashfree-model-mismatch", "%s: no redo/undo patch stored for height %d (redo nil=%v undo nil=%v)", what, ht, redo == nil, undo == nil)
		}
		r := &mapReplayer{m: cloneMap(lo)}
		_ = redo.Replay(r)
		if !sameMap(r.m, hi) {
			c.Failf("C08/crashfree-model-mismatch", "%s: redo patch of height %d applied to state %d does not give state %d:%s", what, ht, ht-1, ht, lineDiff(dumpMap(hi), dumpMap(r.m), 6))
		}
		u := &mapReplayer{m: cloneMap(hi)}
		_ = undo.Replay(u)
		if !sameMap(u.m, lo) {
			c.Failf("C08/crashfree-model-mismatch", "%s: undo patch of height %d applied to state %d does not give state %d:%s", what, ht, ht, ht-1, lineDiff(dumpMap(lo), dumpMap(u.m), 6))
		}
	}
	top := uint64(len(chain) + 1)
	if m.GetPatch(types.HashHeight{Height: top}) != nil || db.VerifRollbackPatch(m, top) != nil {
		c.Failf("C08/crashfree-model-mismatch", "%s: a patch is stored for height %d above the frontier", what, top)
	}
}

// step is one action of the continuation after a restart.
type step struct {
	name string
	do   func(m db.Manager) error
	want observation
}

// examined describes one operation whose crash points are enumerated.
type examined struct {
	kind      string // "commit" | "rollback"
	descr     string
	nkeys     int
	base      *memState
	ops       []sop
	before    observation
	after     observation
	ids       []types.HashHeight
	maxH      uint64
	fromStart map[string][]step // continuation by recovered state: "before" | "after"
	tornSeed  int
}

func openCrash(st *memState) (m db.Manager, failure string) {
	failure = guard(func() string {
		m = db.NewLevelDBManagerFromStorage(newRecStorage(st, false), "c08-crash-copy")
		return ""
	})
	return
}

func runSteps(m db.Manager, steps []step, ids []types.HashHeight, maxH uint64) (bad string) {
	for _, s := range steps {
		s := s
		if msg := guard(func() string {
			if err := s.do(m); err != nil {
				return "error: " + err.Error()
			}
			return ""
		}); msg != "" {
			return fmt.Sprintf("step %q fails with %s", s.name, msg)
		}
		got := observe(m, ids, 1, maxH)
		if !got.equal(s.want) {
			names := got.diffNames(s.want)
			detail := ""
			if len(names) > 0 {
				detail = lineDiff(s.want.get(names[0]), got.get(names[0]), 5)
			}
			return fmt.Sprintf("after step %q the store differs from the crash-free run in %v; %s:%s", s.name, names, first(names), detail)
		}
	}
	return ""
}

func first(s []string) string {
	if len(s) == 0 {
		return ""
	}
	return s[0]
}

func tornOffset(seed, k, n int) int {
	// n >= 2: offsets 1..n-1
	return 1 + (seed+7919*k)%(n-1)
}

// enumerate examines every crash point of e.
func enumerate(c *pbt.C, e *examined) {
	total := len(e.ops)
	c.R.Count("operations_examined/"+e.kind, 1)
	c.R.Count("storage_writes_per_op_sum/"+e.kind, total)
	c.Class(fmt.Sprintf("%s-with-%s-storage-calls", e.kind, bucketN(total)))
	for k := 0; k <= total; k++ {
		crashPoint(c, e, k, 0)
		if k >= 1 && e.ops[k-1].kind == opWrite && len(e.ops[k-1].data) >= 2 {
			crashPoint(c, e, k, tornOffset(e.tornSeed, k, len(e.ops[k-1].data)))
		}
	}
}

func bucketN(n int) string {
	switch {
	case n <= 1:
		return "1"
	case n <= 4:
		return "2-4"
	case n <= 8:
		return "5-8"
	case n <= 16:
		return "9-16"
	default:
		return "17+"
	}
}

func crashPoint(c *pbt.C, e *examined, k int, tornAt int) {
	total := len(e.ops)
	where := fmt.Sprintf("crash point %d of %d", k, total)
	if tornAt > 0 {
		where = fmt.Sprintf("crash inside storage call %d of %d (write cut after %d of %d bytes)", k, total, tornAt, len(e.ops[k-1].data))
	} else if k > 0 {
		where += fmt.Sprintf(" (just after %v)", e.ops[k-1])
	}
	tornKey := "C08/torn-" + e.kind
	c.R.Count("crash_points", 1)
	inside := (k > 0 && k < total) || tornAt > 0
	if inside && e.nkeys >= 2 {
		c.NonTrivial()
		suffix := ""
		if tornAt > 0 {
			suffix = "-torn"
			c.Class("torn-write-crash-point")
		}
		c.NonTrivialItem(fmt.Sprintf("%s/keys=%d/k=%d%s/of=%d", e.kind, e.nkeys, k, suffix, total))
		c.R.Count("crash_points_nontrivial", 1)
	}
	m, failure := openCrash(crashState(e.base, e.ops, k, tornAt))
	if failure != "" {
		c.R.Count("torn/"+e.kind+"/reopen-fails", 1)
		c.Failf(tornKey, "%s; %s: the store cannot be reopened: %s; storage calls of the operation: %s", e.descr, where, failure, fmtOps(e.ops))
		return
	}
	defer func() { _ = guard(func() string { _ = m.Stop(); return "" }) }()
	got := observe(m, e.ids, 1, e.maxH)
	at := ""
	switch {
	case got.equal(e.before):
		at = "before"
	case got.equal(e.after):
		at = "after"
	}
	if os.Getenv("VERIF_C08_DEBUG") != "" {
		what := at
		if at == "" {
			what = "NEITHER: " + tornKind(got, e.before, e.after)
		}
		fmt.Fprintf(os.Stderr, "C08DEBUG %s %s -> %s (frontier pointer %s)\n", e.kind, where, what, got.get("frontier-pointer"))
	}
	if at == "" {
		kind := tornKind(got, e.before, e.after)
		c.R.Count("torn/"+e.kind+"/"+kind, 1)
		c.Class("torn-state-seen")
		if strings.HasPrefix(kind, "patch-record-only") {
			// frontier pointer, keys and all views are those of an admissible state; only a
			// redo/undo record is stored (or missing) for a height above the frontier
			tornKey += "/patch-record-only"
		}
		c.Failf(tornKey, "%s; %s: the reopened store is neither the state before nor the state after [%s]: %s; storage calls of the operation: %s",
			e.descr, where, kind, describeAgainst(got, e.before, e.after), fmtOps(e.ops))
		// known finding: tolerated. The continuation is run only to measure whether the node
		// would heal; its outcome is attributed to the same root cause.
		switch got.get("frontier-pointer") {
		case e.before.get("frontier-pointer"):
			at = "before"
		case e.after.get("frontier-pointer"):
			at = "after"
		default:
			return
		}
		if bad := runSteps(m, e.fromStart[at], e.ids, e.maxH); bad != "" {
			c.R.Count("torn_then_continue/"+e.kind+"/differs", 1)
		} else {
			c.R.Count("torn_then_continue/"+e.kind+"/heals", 1)
		}
		return
	}
	c.R.Count("recovered/"+e.kind+"/"+at, 1)
	if bad := runSteps(m, e.fromStart[at], e.ids, e.maxH); bad != "" {
		c.Failf("C08/continue-differs", "%s; %s: reopened in the state %s the operation, but continuing from there: %s", e.descr, where, at, bad)
	}
	c.R.Count("continuations_checked", 1)
}

// crashFree runs steps on a fresh copy of a storage state and returns the observation after each.
func crashFree(c *pbt.C, st *memState, ids []types.HashHeight, maxH uint64, dos ...func(m db.Manager) error) []observation {
	m, failure := openCrash(st.clone())
	if failure != "" {
		c.Failf("C08/crashfree-run-fails", "reopening an intact store fails: %s", failure)
	}
	defer func() { _ = m.Stop() }()
	var out []observation
	for i, f := range dos {
		if err := f(m); err != nil {
			c.Failf("C08/crashfree-run-fails", "crash-free reference run: step %d fails: %v", i, err)
		}
		out = append(out, observe(m, ids, 1, maxH))
	}
	return out
}

func popOf(m db.Manager) error { return m.Pop() }

func TestC08Db(t *testing.T) {
	pbt.Check(t, "C08", func(c *pbt.C) {
		h := &dbHist{c: c, seenSet: map[string]bool{}}
		h.stor = newRecStorage(nil, true)
		h.live = db.NewLevelDBManagerFromStorage(h.stor, "c08-live")
		c.Cleanup(func() { _ = h.live.Stop() })

		commitLive := func(v *version) {
			if err := addVersion(h.live, v); err != nil {
				c.Failf("C08/crashfree-run-fails", "commit on the frontier refused: %v", err)
			}
			h.chain = append(h.chain, v)
		}
		// warm-up: at least two commits precede every examined operation
		warm := c.Int("warmup.commits", 2, 4)
		for i := 0; i < warm; i++ {
			v, _ := h.newVersion("warm", h.chain)
			c.Note("warm-up commit %s: %s", idName(v.id), fmtWrites(v.writes))
			commitLive(v)
		}
		nOps := c.Int("ops", 1, pbt.Scale(6, 12))
		for i := 0; i < nOps; i++ {
			rollback := len(h.chain) >= 2 && c.Weighted("op.kind", 3, 1) == 1
			competing := c.Bool("continue.competing")
			chainB := append([]*version(nil), h.chain...)
			// ids whose views are observed: every id of the chain before, the id being
			// added, and the competing id
			var ids []types.HashHeight
			for _, v := range chainB {
				ids = append(ids, v.id)
			}
			maxH := uint64(len(chainB) + 1)
			e := &examined{maxH: maxH, tornSeed: c.Int("torn.seed", 0, 9999)}
			if !rollback {
				x, nkeys := h.newVersion("commit", chainB)
				y, _ := h.newVersion("competing", chainB)
				ids = append(ids, x.id, y.id)
				e.kind, e.nkeys, e.ids = "commit", nkeys, ids
				e.descr = fmt.Sprintf("history of %d commits (frontier %s), then commit %s touching %d keys {%s}", len(chainB), idName(frontierOf(chainB)), idName(x.id), nkeys, fmtWrites(x.writes))
				c.Note("examined commit %s (%d keys): %s; competing %s: %s", idName(x.id), nkeys, fmtWrites(x.writes), idName(y.id), fmtWrites(y.writes))
				c.Class(fmt.Sprintf("commit-touching-%s-keys", bucketN(nkeys)))
				n0, base := h.stor.mark()
				e.base = base
				e.before = observe(h.live, ids, 1, maxH)
				commitLive(x)
				e.ops = h.stor.since(n0)
				e.after = observe(h.live, ids, 1, maxH)
				chainA := h.chain
				h.modelCheck(e.before, chainB, ids, "before "+e.descr)
				h.modelCheck(e.after, chainA, ids, "after "+e.descr)
				h.patchSemantics(h.live, chainA, "after "+e.descr)
				addX := step{name: "deliver the same commit again", do: func(m db.Manager) error { return addVersion(m, x) }, want: e.after}
				popX := step{name: "roll the recovered commit back", do: popOf, want: e.before}
				if competing {
					c.Class("continue-with-competing-commit")
					cf := crashFree(c, base, ids, maxH, func(m db.Manager) error { return addVersion(m, y) })
					h.modelCheck(cf[0], append(append([]*version(nil), chainB...), y), ids, "crash-free competing commit")
					addY := step{name: "deliver a competing commit " + idName(y.id), do: func(m db.Manager) error { return addVersion(m, y) }, want: cf[0]}
					e.fromStart = map[string][]step{"before": {addY}, "after": {popX, addY}}
				} else {
					e.fromStart = map[string][]step{"before": {addX}, "after": {popX, addX}}
				}
			} else {
				top := chainB[len(chainB)-1]
				chainA := append([]*version(nil), chainB[:len(chainB)-1]...)
				y, _ := h.newVersion("competing", chainA)
				ids = append(ids, y.id)
				nkeys := map[string]bool{}
				for _, w := range top.writes {
					nkeys[string(w.key)] = true
				}
				e.kind, e.nkeys, e.ids = "rollback", len(nkeys), ids
				e.descr = fmt.Sprintf("history of %d commits, then rollback of %s which touched %d keys {%s}", len(chainB), idName(top.id), len(nkeys), fmtWrites(top.writes))
				c.Note("examined rollback of %s (%d keys); competing %s: %s", idName(top.id), len(nkeys), idName(y.id), fmtWrites(y.writes))
				c.Class("rollback")
				c.Class(fmt.Sprintf("rollback-touching-%s-keys", bucketN(len(nkeys))))
				n0, base := h.stor.mark()
				e.base = base
				e.before = observe(h.live, ids, 1, maxH)
				if err := h.live.Pop(); err != nil {
					c.Failf("C08/crashfree-run-fails", "Pop: %v", err)
				}
				h.chain = chainA
				e.ops = h.stor.since(n0)
				_, end := h.stor.mark()
				e.after = observe(h.live, ids, 1, maxH)
				h.modelCheck(e.before, chainB, ids, "before "+e.descr)
				h.modelCheck(e.after, chainA, ids, "after "+e.descr)
				h.patchSemantics(h.live, chainA, "after "+e.descr)
				popT := step{name: "roll back again", do: popOf, want: e.after}
				if competing {
					c.Class("continue-with-competing-commit")
					cf := crashFree(c, end, ids, maxH, func(m db.Manager) error { return addVersion(m, y) })
					h.modelCheck(cf[0], append(append([]*version(nil), chainA...), y), ids, "crash-free competing commit after rollback")
					addY := step{name: "deliver a competing commit " + idName(y.id), do: func(m db.Manager) error { return addVersion(m, y) }, want: cf[0]}
					e.fromStart = map[string][]step{"before": {popT, addY}, "after": {addY}}
				} else {
					addT := step{name: "deliver the rolled-back commit again", do: func(m db.Manager) error { return addVersion(m, top) }, want: e.before}
					e.fromStart = map[string][]step{"before": {popT, addT}, "after": {addT}}
				}
			}
			c.Note("  storage calls: %s", fmtOps(e.ops))
			c.Step()
			enumerate(c, e)
		}
	})
}
