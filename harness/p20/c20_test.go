package p20

// C20 — genesis: same configuration, same chain; inconsistent configuration or database refused.
//
//   TestC20Determinism       hash / momentum bytes / logical store dump are a pure function of the
//                            configuration: repetition, permutation of unordered lists, JSON
//                            re-encoding, fresh child processes; a different configuration
//                            gives a different hash.
//   TestC20Validation        CheckGenesis accepts every constructed configuration, rejects every
//                            single-entry perturbation with an error (no panic), and everything
//                            it accepts builds a state in which the supply identity and the
//                            contract backing hold.
//   TestC20DatabaseMismatch  chain.Init on A's database with B fails iff hash(A) != hash(B) and
//                            leaves the database untouched.

import (
	"bytes"
	"crypto/sha256"
	"encoding/hex"
	"encoding/json"
	"fmt"
	"math/big"
	"os"
	"os/exec"
	"path/filepath"
	"strings"
	"testing"

	"github.com/zenon-network/go-zenon/chain/genesis"
	"github.com/zenon-network/go-zenon/common/types"
	"github.com/zenon-network/go-zenon/vm/embedded/definition"

	"verifharness/pbt"
	"verifharness/sim"
)

const (
	envChildCfg = "C20_CHILD_CFG"
	envChildOut = "C20_CHILD_OUT"
)

func saveGlobals(c *pbt.C) {
	old := types.SporkAddress
	c.Cleanup(func() { types.SporkAddress = old })
}

func sha(b []byte) string {
	h := sha256.Sum256(b)
	return hex.EncodeToString(h[:])
}

// identity is the line a construction is reduced to when it crosses a process boundary.
func identity(b built, stored []byte, dump string) string {
	return fmt.Sprintf("%v %s %s %s", b.hash, sha(b.mbytes), sha(stored), sha([]byte(dump)))
}

// TestHelperC20Child is the body of the fresh child process: it reads a configuration file,
// builds the genesis, starts a chain on a fresh database and reports the identity line.
// Without the environment variable it does nothing.
func TestHelperC20Child(t *testing.T) {
	path := os.Getenv(envChildCfg)
	if path == "" {
		t.Skip("child-process helper of TestC20Determinism")
	}
	stdout := os.Stdout
	sim.Silence()
	data, err := os.ReadFile(path)
	if err != nil {
		t.Fatal(err)
	}
	cfg := new(genesis.GenesisConfig)
	if err := json.Unmarshal(data, cfg); err != nil {
		t.Fatal(err)
	}
	b := construct(cfg)
	if b.panicv != nil {
		t.Fatalf("construction panicked: %v", b.panicv)
	}
	dir, err := os.MkdirTemp("", "c20-child-")
	if err != nil {
		t.Fatal(err)
	}
	defer os.RemoveAll(dir)
	dump, stored, err := initDump(dir, cfg)
	if err != nil {
		t.Fatalf("chain.Init: %v", err)
	}
	line := identity(b, stored, dump)
	fmt.Fprintf(stdout, "C20CHILD %s\n", line)
	if out := os.Getenv(envChildOut); out != "" {
		if err := os.WriteFile(out, []byte(line), 0o644); err != nil {
			t.Fatal(err)
		}
	}
}

// runChild re-executes the test binary on the configuration file and returns the identity line.
func runChild(c *pbt.C, dir, name string, cfgJSON []byte) string {
	cfgPath := filepath.Join(dir, name+".json")
	outPath := filepath.Join(dir, name+".out")
	if err := os.WriteFile(cfgPath, cfgJSON, 0o644); err != nil {
		panic(err)
	}
	cmd := exec.Command(os.Args[0], "-test.run", "^TestHelperC20Child$", "-test.count", "1", "-test.v")
	for _, e := range os.Environ() {
		if strings.HasPrefix(e, "VERIF_") || strings.HasPrefix(e, "C20_CHILD_") {
			continue
		}
		cmd.Env = append(cmd.Env, e)
	}
	cmd.Env = append(cmd.Env, envChildCfg+"="+cfgPath, envChildOut+"="+outPath)
	cmd.Dir = dir
	out, err := cmd.CombinedOutput()
	if err != nil {
		tail := string(out)
		if len(tail) > 3000 {
			tail = tail[len(tail)-3000:]
		}
		c.Failf("C20/child-process-failed", "child process on %s: %v\n%s", name, err, tail)
		return ""
	}
	line, err := os.ReadFile(outPath)
	if err != nil {
		c.Failf("C20/child-process-failed", "child process on %s wrote no result: %v", name, err)
		return ""
	}
	printed := ""
	for _, l := range strings.Split(string(out), "\n") {
		if strings.HasPrefix(l, "C20CHILD ") {
			printed = strings.TrimPrefix(l, "C20CHILD ")
		}
	}
	if printed != string(line) {
		panic(fmt.Sprintf("child printed %q but wrote %q", printed, line))
	}
	c.R.Count("child-processes", 1)
	return string(line)
}

// addCollisions inserts entries that collide on a storage key with an existing entry (order-
// carrying: last wins). It returns the names of the lists that therefore must not be permuted.
func addCollisions(c *pbt.C, cfg *genesis.GenesisConfig) map[string]bool {
	skip := map[string]bool{}
	kinds := []string{"blocks", "tokens", "pillars", "delegations", "legacy", "fusions", "swaps", "sporks"}
	n := c.Int("collide.n", 1, 3)
	for k := 0; k < n; k++ {
		kind := kinds[c.Pick("collide.kind", len(kinds))]
		done := false
		switch kind {
		case "blocks":
			l := cfg.GenesisBlocks.Blocks
			src := l[c.Pick("collide.src", len(l))]
			d := &genesis.GenesisBlockConfig{Address: src.Address, BalanceList: map[types.ZenonTokenStandard]*big.Int{}}
			for _, z := range sortedZts(src.BalanceList) {
				if c.Bool("collide.block.keep") {
					d.BalanceList[z] = new(big.Int).Add(src.BalanceList[z], big.NewInt(int64(c.Int("collide.block.delta", 0, 5))))
				}
			}
			cfg.GenesisBlocks.Blocks = insertAt(l, c.Pick("collide.pos", len(l)+1), d)
			done = true
		case "tokens":
			l := cfg.TokenConfig.Tokens
			d := *l[c.Pick("collide.src", len(l))]
			d.TokenName += "-dup"
			d.TotalSupply = new(big.Int).Add(d.TotalSupply, big.NewInt(int64(c.Int("collide.token.delta", 0, 5))))
			cfg.TokenConfig.Tokens = insertAt(l, c.Pick("collide.pos", len(l)+1), &d)
			done = true
		case "pillars":
			if l := cfg.PillarConfig.Pillars; len(l) > 0 {
				d := *l[c.Pick("collide.src", len(l))]
				d.Amount = new(big.Int).Add(d.Amount, big.NewInt(int64(c.Int("collide.pillar.delta", 0, 5))))
				d.GiveBlockRewardPercentage = uint8(c.Int("collide.pillar.pct", 0, 100))
				if c.Bool("collide.pillar.producer") {
					d.BlockProducingAddress = synthAddr("producer-dup", k)
				}
				cfg.PillarConfig.Pillars = insertAt(l, c.Pick("collide.pos", len(l)+1), &d)
				done = true
			}
		case "delegations":
			if l := cfg.PillarConfig.Delegations; len(l) > 0 {
				d := *l[c.Pick("collide.src", len(l))]
				d.Name += "-other"
				cfg.PillarConfig.Delegations = insertAt(l, c.Pick("collide.pos", len(l)+1), &d)
				done = true
			}
		case "legacy":
			if l := cfg.PillarConfig.LegacyEntries; len(l) > 0 {
				d := *l[c.Pick("collide.src", len(l))]
				d.PillarCount += 1
				cfg.PillarConfig.LegacyEntries = insertAt(l, c.Pick("collide.pos", len(l)+1), &d)
				done = true
			}
		case "fusions":
			if l := cfg.PlasmaConfig.Fusions; len(l) > 0 {
				d := *l[c.Pick("collide.src", len(l))]
				d.Amount = new(big.Int).Add(d.Amount, big.NewInt(int64(c.Int("collide.fusion.delta", 1, 5))))
				d.Beneficiary = userAddr(c.Pick("collide.fusion.beneficiary", 6))
				cfg.PlasmaConfig.Fusions = insertAt(l, c.Pick("collide.pos", len(l)+1), &d)
				done = true
			}
		case "swaps":
			if l := cfg.SwapConfig.Entries; len(l) > 0 {
				d := *l[c.Pick("collide.src", len(l))]
				d.Znn = new(big.Int).Add(d.Znn, big.NewInt(1))
				d.Qsr = new(big.Int).Set(d.Qsr)
				cfg.SwapConfig.Entries = insertAt(l, c.Pick("collide.pos", len(l)+1), &d)
				done = true
			}
		case "sporks":
			if cfg.SporkConfig != nil && len(cfg.SporkConfig.Sporks) > 0 {
				l := cfg.SporkConfig.Sporks
				d := *l[c.Pick("collide.src", len(l))]
				d.Name += "-dup"
				if d.Activated {
					d.EnforcementHeight++
				}
				cfg.SporkConfig.Sporks = insertAt(l, c.Pick("collide.pos", len(l)+1), &d)
				done = true
			}
		}
		if done {
			skip[kind] = true
			c.Class("collision:" + kind)
		}
	}
	return skip
}

func insertAt[T any](l []T, pos int, v T) []T {
	out := make([]T, 0, len(l)+1)
	out = append(out, l[:pos]...)
	out = append(out, v)
	return append(out, l[pos:]...)
}

// plainBlocks lists the indices of blocks no contract validator constrains and that hold something.
func plainBlocks(cfg *genesis.GenesisConfig) []int {
	var out []int
	for i, b := range cfg.GenesisBlocks.Blocks {
		if b.Address == types.PillarContract || b.Address == types.PlasmaContract || b.Address == types.SwapContract || len(b.BalanceList) == 0 {
			continue
		}
		out = append(out, i)
	}
	return out
}

// differ changes cfg into a different, still consistent configuration whose ledger content differs.
func differ(c *pbt.C, cfg *genesis.GenesisConfig) string {
	kinds := []string{"balance", "chainid", "timestamp", "extra"}
	if len(cfg.PillarConfig.Delegations) > 0 {
		kinds = append(kinds, "delegation")
	}
	if len(cfg.PillarConfig.Pillars) > 0 {
		kinds = append(kinds, "pillar-percentage")
	}
	if len(cfg.SwapConfig.Entries) > 0 {
		kinds = append(kinds, "swap-amount")
	}
	if cfg.SporkConfig != nil && len(cfg.SporkConfig.Sporks) > 0 {
		kinds = append(kinds, "spork-name")
	}
	if len(cfg.PlasmaConfig.Fusions) > 0 {
		kinds = append(kinds, "fusion-beneficiary")
	}
	kind := kinds[c.Pick("differ.kind", len(kinds))]
	switch kind {
	case "balance":
		pb := plainBlocks(cfg)
		if len(pb) == 0 {
			cfg.ChainIdentifier++
			return "chainid"
		}
		b := cfg.GenesisBlocks.Blocks[pb[c.Pick("differ.block", len(pb))]]
		zs := sortedZts(b.BalanceList)
		z := zs[c.Pick("differ.token", len(zs))]
		d := big.NewInt(int64(c.Int("differ.delta", 1, 1000)))
		b.BalanceList[z].Add(b.BalanceList[z], d)
		t := findToken(cfg, z)
		t.TotalSupply.Add(t.TotalSupply, d)
		t.MaxSupply.Add(t.MaxSupply, d)
		return fmt.Sprintf("balance of %v in %v +%v (supply adjusted)", b.Address, z, d)
	case "chainid":
		cfg.ChainIdentifier++
	case "timestamp":
		cfg.GenesisTimestampSec++
	case "extra":
		cfg.ExtraData += "x"
	case "delegation":
		l := cfg.PillarConfig.Delegations
		l[c.Pick("differ.idx", len(l))].Name += "x"
	case "pillar-percentage":
		l := cfg.PillarConfig.Pillars
		p := l[c.Pick("differ.idx", len(l))]
		p.GiveDelegateRewardPercentage = (p.GiveDelegateRewardPercentage + 1) % 101
	case "swap-amount":
		l := cfg.SwapConfig.Entries
		e := l[c.Pick("differ.idx", len(l))]
		e.Znn = new(big.Int).Add(e.Znn, big.NewInt(1))
	case "spork-name":
		l := cfg.SporkConfig.Sporks
		l[c.Pick("differ.idx", len(l))].Name += "x"
	case "fusion-beneficiary":
		l := cfg.PlasmaConfig.Fusions
		f := l[c.Pick("differ.idx", len(l))]
		f.Beneficiary = synthAddr("other-beneficiary", 0)
	}
	return kind
}

func TestC20Determinism(t *testing.T) {
	sim.Silence()
	pbt.Check(t, "C20", func(c *pbt.C) {
		saveGlobals(c)
		m := genModel(c)
		cfg := m.config()
		skip := map[string]bool{}
		colliding := c.Weighted("collide", 3, 1) == 1
		if colliding {
			skip = addCollisions(c, cfg)
			c.Class("colliding-keys")
		} else {
			c.Class("distinct-keys")
		}
		if cfg.SporkConfig == nil {
			c.Class("nil-spork-config")
		}
		c.Note("config: %s", describe(cfg))
		pristine := cloneCfg(cfg)

		base := construct(cfg)
		if base.panicv != nil {
			c.Failf("C20/construct-panic", "NewGenesis panicked: %v", base.panicv)
			return
		}
		var dump0 string
		same := func(key, what string, other *genesis.GenesisConfig, withDump bool) {
			b := construct(other)
			if b.panicv != nil {
				c.Failf(key, "%s: construction panicked: %v", what, b.panicv)
				return
			}
			if b.hash != base.hash {
				c.Failf(key, "%s: genesis hash %v, expected %v", what, b.hash, base.hash)
				return
			}
			if !bytes.Equal(b.mbytes, base.mbytes) {
				c.Failf(key, "%s: same hash but different serialized momentum", what)
				return
			}
			if withDump {
				d, st, err := initDump(tempDir(c), other)
				if err != nil {
					c.Failf(key, "%s: chain.Init failed: %v", what, err)
					return
				}
				if !bytes.Equal(st, base.mbytes) {
					c.Failf(key, "%s: stored genesis momentum differs", what)
				}
				if d != dump0 {
					c.Failf(key, "%s: same hash but the initial state differs: %s", what, firstDiff(dump0, d))
				}
			}
		}

		// (a) repetition in this process: the same object, a deep copy, a fresh materialisation
		same("C20/nondeterministic-repeat", "second construction from the same object", cfg, false)
		d0, stored0, err := initDump(tempDir(c), cfg)
		dump0 = d0
		if err != nil {
			c.Failf("C20/init-failed", "chain.Init on a fresh database failed: %v", err)
			return
		}
		if !bytes.Equal(stored0, base.mbytes) {
			c.Failf("C20/stored-momentum-differs", "momentum stored at height 1 differs from the constructed genesis momentum")
		}
		c.Note("base: %s dump=%s (%d bytes)", base, shortSum(dump0), len(dump0))

		same("C20/nondeterministic-repeat", "construction from a deep copy", cloneCfg(cfg), true)
		if !colliding {
			same("C20/nondeterministic-repeat", "construction from a fresh materialisation", m.config(), false)
		}
		// constructing must not have modified the configuration
		if j1, j2 := mustJSON(pristine), mustJSON(cfg); !bytes.Equal(j1, j2) {
			c.Failf("C20/config-mutated", "building the genesis modified the configuration object")
		}

		// (b) permutation of the unordered lists
		perm := cloneCfg(cfg)
		moved := permute(c, perm, skip)
		for _, l := range moved {
			c.Class("permuted:" + l)
		}
		if len(moved) > 0 {
			c.Note("permuted lists: %v", moved)
			same("C20/order-dependent", fmt.Sprintf("permutation of %v", moved), perm, true)
		}

		// (c) JSON re-encoding
		data, err := json.Marshal(cfg)
		if err != nil {
			c.Failf("C20/json-roundtrip-error", "marshal: %v", err)
			return
		}
		back := new(genesis.GenesisConfig)
		if err := json.Unmarshal(data, back); err != nil {
			c.Failf("C20/json-roundtrip-error", "unmarshal of own encoding: %v", err)
			return
		}
		if again := mustJSON(back); !bytes.Equal(again, data) {
			c.Failf("C20/json-roundtrip-error", "re-encoding differs after a round trip")
		}
		same("C20/json-dependent", "JSON round trip", back, c.Bool("json.dump"))
		var indented bytes.Buffer
		_ = json.Indent(&indented, data, "", "\t")
		back2 := new(genesis.GenesisConfig)
		if err := json.Unmarshal(indented.Bytes(), back2); err != nil {
			c.Failf("C20/json-roundtrip-error", "unmarshal of indented encoding: %v", err)
			return
		}
		same("C20/json-dependent", "indented JSON", back2, false)

		// (d) fresh child processes (subset)
		if c.Weighted("child", pbt.Scale(5, 3), 1) == 1 {
			c.Class("child-process")
			dir := tempDir(c)
			want := identity(base, stored0, dump0)
			if got := runChild(c, dir, "base", data); got != "" && got != want {
				c.Failf("C20/process-dependent", "fresh process on the same configuration: %q, this process: %q", got, want)
			}
			if len(moved) > 0 {
				if got := runChild(c, dir, "permuted", mustJSON(perm)); got != "" && got != want {
					c.Failf("C20/process-dependent", "fresh process on the permuted configuration: %q, this process: %q", got, want)
				}
			}
		}

		// (e) a different configuration gives a different hash
		if !colliding {
			other := cloneCfg(cfg)
			what := differ(c, other)
			c.Class("differ:" + strings.SplitN(what, " ", 2)[0])
			b := construct(other)
			if b.panicv != nil {
				c.Failf("C20/construct-panic", "NewGenesis panicked on the changed configuration (%s): %v", what, b.panicv)
			} else if b.hash == base.hash {
				c.Failf("C20/different-config-same-hash", "changed configuration (%s) has the same genesis hash %v", what, b.hash)
			}
		}

		if bigEnough(cfg) {
			c.Class("size>=3tok/4acc/2fus")
			if len(moved) > 0 {
				c.NonTrivial()
			}
		}
	})
}

func mustJSON(cfg *genesis.GenesisConfig) []byte {
	d, err := json.Marshal(cfg)
	if err != nil {
		panic(err)
	}
	return d
}

// ---- validation ---------------------------------------------------------------------------------

func check(cfg *genesis.GenesisConfig) (err error, panicv interface{}) {
	defer func() {
		if p := recover(); p != nil {
			panicv = p
		}
	}()
	return genesis.CheckGenesis(cfg), nil
}

var perturbKinds = []string{"balance+1", "balance-1", "supply+1", "supply-1", "pillar-amount", "fusion-amount", "undeclared-token",
	"token-for-nobody", "swap-balance", "nil-section", "drop-block", "drop-balance-entry", "null-amount", "negative-balance-compensated"}

// perturb applies one single-entry perturbation in place. ok=false: not applicable to this
// configuration. vacuous names the contract whose block is absent when the perturbation can only
// be noticed through that block (for the observation-only kind "null-amount" it carries the
// name of the nulled field instead).
func perturb(c *pbt.C, cfg *genesis.GenesisConfig, kind string) (descr string, ok bool, vacuous string) {
	blocks := cfg.GenesisBlocks.Blocks
	pickEntry := func(positive bool) (*genesis.GenesisBlockConfig, types.ZenonTokenStandard, bool) {
		type ent struct {
			b *genesis.GenesisBlockConfig
			z types.ZenonTokenStandard
		}
		var l []ent
		for _, b := range blocks {
			for _, z := range sortedZts(b.BalanceList) {
				if !positive || b.BalanceList[z].Sign() > 0 {
					l = append(l, ent{b, z})
				}
			}
		}
		if len(l) == 0 {
			return nil, types.ZenonTokenStandard{}, false
		}
		e := l[c.Pick("perturb.entry", len(l))]
		return e.b, e.z, true
	}
	switch kind {
	case "negative-balance-compensated":
		// two entries of one token: one goes negative, the other takes the difference, the signed sum stays what the
		// declared supply says (an account cannot hold a negative amount: the built state cannot equal this)
		type ent struct {
			b *genesis.GenesisBlockConfig
			z types.ZenonTokenStandard
		}
		byZts := map[types.ZenonTokenStandard][]ent{}
		var zs []types.ZenonTokenStandard
		for _, b := range blocks {
			if types.IsEmbeddedAddress(b.Address) {
				continue
			}
			for _, z := range sortedZts(b.BalanceList) {
				if len(byZts[z]) == 0 {
					zs = append(zs, z)
				}
				byZts[z] = append(byZts[z], ent{b, z})
			}
		}
		var cand []types.ZenonTokenStandard
		for _, z := range zs {
			if len(byZts[z]) >= 2 {
				cand = append(cand, z)
			}
		}
		if len(cand) == 0 {
			return "", false, ""
		}
		z := cand[c.Pick("perturb.negzts", len(cand))]
		l := byZts[z]
		i := c.Pick("perturb.neg.i", len(l))
		j := (i + 1 + c.Pick("perturb.neg.j", len(l)-1)) % len(l)
		d := new(big.Int).Add(l[i].b.BalanceList[z], big.NewInt(int64(c.Int("perturb.neg.d", 1, 1000))))
		l[i].b.BalanceList[z] = new(big.Int).Sub(l[i].b.BalanceList[z], d)
		l[j].b.BalanceList[z] = new(big.Int).Add(l[j].b.BalanceList[z], d)
		return fmt.Sprintf("balance of %v in %v made %v, the difference added to %v", l[i].b.Address, z, l[i].b.BalanceList[z], l[j].b.Address), true, ""
	case "balance+1":
		b, z, found := pickEntry(false)
		if !found {
			return "", false, ""
		}
		b.BalanceList[z].Add(b.BalanceList[z], big.NewInt(1))
		return fmt.Sprintf("balance of %v in %v +1", b.Address, z), true, ""
	case "balance-1":
		b, z, found := pickEntry(true)
		if !found {
			return "", false, ""
		}
		b.BalanceList[z].Sub(b.BalanceList[z], big.NewInt(1))
		return fmt.Sprintf("balance of %v in %v -1", b.Address, z), true, ""
	case "drop-balance-entry":
		b, z, found := pickEntry(true)
		if !found {
			return "", false, ""
		}
		delete(b.BalanceList, z)
		return fmt.Sprintf("balance entry of %v in %v removed", b.Address, z), true, ""
	case "drop-block":
		var l []int
		for i, b := range blocks {
			for _, z := range sortedZts(b.BalanceList) {
				if b.BalanceList[z].Sign() > 0 {
					l = append(l, i)
					break
				}
			}
		}
		if len(l) == 0 {
			return "", false, ""
		}
		i := l[c.Pick("perturb.block", len(l))]
		a := blocks[i].Address
		cfg.GenesisBlocks.Blocks = append(append([]*genesis.GenesisBlockConfig{}, blocks[:i]...), blocks[i+1:]...)
		return fmt.Sprintf("block of %v removed", a), true, ""
	case "supply+1", "supply-1":
		var l []*definition.TokenInfo
		for _, t := range cfg.TokenConfig.Tokens {
			if kind == "supply+1" || t.TotalSupply.Sign() > 0 {
				l = append(l, t)
			}
		}
		if len(l) == 0 {
			return "", false, ""
		}
		t := l[c.Pick("perturb.token", len(l))]
		if kind == "supply+1" {
			t.TotalSupply.Add(t.TotalSupply, big.NewInt(1))
			t.MaxSupply.Add(t.MaxSupply, big.NewInt(1))
		} else {
			t.TotalSupply.Sub(t.TotalSupply, big.NewInt(1))
		}
		return fmt.Sprintf("%s of %v", kind, t.TokenStandard), true, ""
	case "pillar-amount":
		l := cfg.PillarConfig.Pillars
		if len(l) == 0 {
			return "", false, ""
		}
		p := l[c.Pick("perturb.pillar", len(l))]
		d := big.NewInt(int64(c.Int("perturb.delta", 1, 1000)))
		if c.Bool("perturb.minus") && p.Amount.Cmp(d) >= 0 {
			d.Neg(d)
		}
		p.Amount.Add(p.Amount, d)
		if findBlock(cfg, types.PillarContract) < 0 {
			vacuous = "pillar"
		}
		return fmt.Sprintf("amount of pillar %s %+d", p.Name, d), true, vacuous
	case "fusion-amount":
		l := cfg.PlasmaConfig.Fusions
		if len(l) == 0 {
			return "", false, ""
		}
		f := l[c.Pick("perturb.fusion", len(l))]
		d := big.NewInt(int64(c.Int("perturb.delta", 1, 1000)))
		if c.Bool("perturb.minus") && f.Amount.Cmp(d) >= 0 {
			d.Neg(d)
		}
		f.Amount.Add(f.Amount, d)
		if findBlock(cfg, types.PlasmaContract) < 0 {
			vacuous = "plasma"
		}
		return fmt.Sprintf("amount of fusion %v/%v %+d", f.Owner, f.Id, d), true, vacuous
	case "undeclared-token":
		b := blocks[c.Pick("perturb.block", len(blocks))]
		if b.Address == types.SwapContract && b.BalanceList == nil {
			b.BalanceList = map[types.ZenonTokenStandard]*big.Int{}
		}
		z := synthZts(100 + c.Pick("perturb.zts", 4))
		b.BalanceList[z] = posAmount(c, "perturb.amount")
		return fmt.Sprintf("%v holds %v of undeclared token %v", b.Address, b.BalanceList[z], z), true, ""
	case "token-for-nobody":
		z := synthZts(200 + c.Pick("perturb.zts", 4))
		t := &definition.TokenInfo{Owner: userAddr(0), TokenName: "Nobody", TokenSymbol: "NOB", TokenDomain: "verif.test",
			TotalSupply: posAmount(c, "perturb.amount"), Decimals: 2, IsMintable: true, TokenStandard: z}
		t.MaxSupply = new(big.Int).Set(t.TotalSupply)
		l := cfg.TokenConfig.Tokens
		cfg.TokenConfig.Tokens = insertAt(l, c.Pick("perturb.pos", len(l)+1), t)
		return fmt.Sprintf("token %v with supply %v declared but given to nobody", z, t.TotalSupply), true, ""
	case "swap-balance":
		ts := cfg.TokenConfig.Tokens
		t := ts[c.Pick("perturb.token", len(ts))]
		amt := posAmount(c, "perturb.amount")
		i := findBlock(cfg, types.SwapContract)
		if i < 0 {
			cfg.GenesisBlocks.Blocks = insertAt(blocks, c.Pick("perturb.pos", len(blocks)+1),
				&genesis.GenesisBlockConfig{Address: types.SwapContract, BalanceList: map[types.ZenonTokenStandard]*big.Int{t.TokenStandard: amt}})
		} else {
			blocks[i].BalanceList[t.TokenStandard] = amt
		}
		adj := c.Bool("perturb.adjustSupply")
		if adj { // only the swap validator can notice it now
			t.TotalSupply.Add(t.TotalSupply, amt)
			t.MaxSupply.Add(t.MaxSupply, amt)
		}
		return fmt.Sprintf("swap contract holds %v of %v (supply adjusted: %v)", amt, t.TokenStandard, adj), true, ""
	case "nil-section":
		s := c.OneOf("perturb.section", "GenesisBlocks", "TokenConfig", "PillarConfig", "SporkAddress", "PlasmaConfig", "SwapConfig")
		switch s {
		case "GenesisBlocks":
			cfg.GenesisBlocks = nil
		case "TokenConfig":
			cfg.TokenConfig = nil
		case "PillarConfig":
			cfg.PillarConfig = nil
		case "SporkAddress":
			cfg.SporkAddress = nil
		case "PlasmaConfig":
			cfg.PlasmaConfig = nil
		case "SwapConfig":
			cfg.SwapConfig = nil
		default:
			panic(s)
		}
		return "section " + s + " set to nil", true, ""
	case "null-amount":
		// what a JSON file with a missing / null amount decodes to. Outside the stated property
		// (observation only, see the caller).
		switch s := c.OneOf("perturb.null", "balance", "supply", "pillar", "fusion", "swap"); s {
		case "balance":
			b, z, found := pickEntry(false)
			if !found {
				return "", false, ""
			}
			b.BalanceList[z] = nil
			return fmt.Sprintf("null balance of %v in %v", b.Address, z), true, s
		case "supply":
			ts := cfg.TokenConfig.Tokens
			ts[c.Pick("perturb.token", len(ts))].TotalSupply = nil
			return "null TotalSupply", true, s
		case "pillar":
			l := cfg.PillarConfig.Pillars
			if len(l) == 0 {
				return "", false, ""
			}
			l[c.Pick("perturb.pillar", len(l))].Amount = nil
			return "null pillar Amount", true, s
		case "fusion":
			l := cfg.PlasmaConfig.Fusions
			if len(l) == 0 {
				return "", false, ""
			}
			l[c.Pick("perturb.fusion", len(l))].Amount = nil
			return "null fusion Amount", true, s
		default:
			l := cfg.SwapConfig.Entries
			if len(l) == 0 {
				return "", false, ""
			}
			l[c.Pick("perturb.swap", len(l))].Znn = nil
			return "null swap Znn", true, s
		}
	}
	panic("unknown perturbation " + kind)
}

var variantKinds = []string{"dup-address-split", "dup-address-same-doubled", "dup-address-disjoint", "dup-contract-block",
	"missing-pillar-block", "missing-plasma-block", "dup-pillar-name", "dup-fusion-key"}

// variant rewrites cfg into a configuration of a class for which no validator outcome is
// demanded; only "accepted => consistent built state" is.
func variant(c *pbt.C, cfg *genesis.GenesisConfig, kind string) (descr string, ok bool) {
	blocks := cfg.GenesisBlocks.Blocks
	switch kind {
	case "dup-address-split", "dup-address-same-doubled", "dup-address-disjoint":
		var l []int
		for _, i := range plainBlocks(cfg) {
			pos := 0
			for _, v := range blocks[i].BalanceList {
				if v.Sign() > 0 {
					pos++
				}
			}
			if (kind == "dup-address-disjoint" && len(blocks[i].BalanceList) >= 2) || (kind != "dup-address-disjoint" && pos >= 1) {
				l = append(l, i)
			}
		}
		if len(l) == 0 {
			return "", false
		}
		i := l[c.Pick("variant.block", len(l))]
		b := blocks[i]
		d := &genesis.GenesisBlockConfig{Address: b.Address, BalanceList: map[types.ZenonTokenStandard]*big.Int{}}
		zs := sortedZts(b.BalanceList)
		switch kind {
		case "dup-address-split":
			// every positive balance is split over the two entries; the listed amounts still add up
			for _, z := range zs {
				v := b.BalanceList[z]
				if v.Sign() > 0 {
					part := new(big.Int).Rsh(v, 1)
					if v.IsUint64() && v.Uint64() >= 2 {
						part.SetUint64(c.Uint64("variant.part", 1, v.Uint64()-1))
					}
					d.BalanceList[z] = part
					b.BalanceList[z] = new(big.Int).Sub(v, part)
				}
			}
		case "dup-address-same-doubled":
			// the same entry twice, declared supplies raised so that the listed amounts add up
			for _, z := range zs {
				v := b.BalanceList[z]
				d.BalanceList[z] = new(big.Int).Set(v)
				t := findToken(cfg, z)
				t.TotalSupply.Add(t.TotalSupply, v)
				t.MaxSupply.Add(t.MaxSupply, v)
			}
		case "dup-address-disjoint":
			// the tokens of one address listed in two entries, no token in both
			k := c.Int("variant.cut", 1, len(zs)-1)
			for _, z := range zs[k:] {
				d.BalanceList[z] = b.BalanceList[z]
				delete(b.BalanceList, z)
			}
		}
		pos := i + 1
		if c.Bool("variant.far") {
			pos = c.Pick("variant.pos", len(blocks)+1)
		}
		cfg.GenesisBlocks.Blocks = insertAt(blocks, pos, d)
		return fmt.Sprintf("%s: %v listed twice (second entry at %d)", kind, b.Address, pos), true
	case "dup-contract-block":
		a, z := types.PillarContract, znn
		if c.Bool("variant.plasma") {
			a, z = types.PlasmaContract, qsr
		}
		i := findBlock(cfg, a)
		if i < 0 || blocks[i].BalanceList[z] == nil || blocks[i].BalanceList[z].Sign() == 0 {
			return "", false
		}
		v := blocks[i].BalanceList[z]
		d := &genesis.GenesisBlockConfig{Address: a, BalanceList: map[types.ZenonTokenStandard]*big.Int{z: new(big.Int).Set(v)}}
		t := findToken(cfg, z)
		t.TotalSupply.Add(t.TotalSupply, v)
		t.MaxSupply.Add(t.MaxSupply, v)
		cfg.GenesisBlocks.Blocks = insertAt(blocks, c.Pick("variant.pos", len(blocks)+1), d)
		return fmt.Sprintf("%s: block of %v listed twice with the full amount, supply raised", kind, a), true
	case "missing-pillar-block", "missing-plasma-block":
		a, z := types.PillarContract, znn
		if kind == "missing-plasma-block" {
			a, z = types.PlasmaContract, qsr
		}
		i := findBlock(cfg, a)
		if i < 0 || blocks[i].BalanceList[z] == nil || blocks[i].BalanceList[z].Sign() == 0 {
			return "", false
		}
		v := blocks[i].BalanceList[z]
		t := findToken(cfg, z)
		t.TotalSupply.Sub(t.TotalSupply, v)
		cfg.GenesisBlocks.Blocks = append(append([]*genesis.GenesisBlockConfig{}, blocks[:i]...), blocks[i+1:]...)
		return fmt.Sprintf("%s: block of %v (%v) left out, supply lowered accordingly", kind, a, v), true
	case "dup-pillar-name":
		l := cfg.PillarConfig.Pillars
		i := findBlock(cfg, types.PillarContract)
		if len(l) == 0 || i < 0 {
			return "", false
		}
		d := *l[c.Pick("variant.pillar", len(l))]
		d.Amount = posAmount(c, "variant.amount")
		blocks[i].BalanceList[znn].Add(blocks[i].BalanceList[znn], d.Amount)
		t := findToken(cfg, znn)
		t.TotalSupply.Add(t.TotalSupply, d.Amount)
		t.MaxSupply.Add(t.MaxSupply, d.Amount)
		cfg.PillarConfig.Pillars = insertAt(l, c.Pick("variant.pos", len(l)+1), &d)
		return fmt.Sprintf("%s: pillar %s listed twice, contract balance and supply cover both", kind, d.Name), true
	case "dup-fusion-key":
		l := cfg.PlasmaConfig.Fusions
		i := findBlock(cfg, types.PlasmaContract)
		if len(l) == 0 || i < 0 {
			return "", false
		}
		d := *l[c.Pick("variant.fusion", len(l))]
		d.Amount = posAmount(c, "variant.amount")
		blocks[i].BalanceList[qsr].Add(blocks[i].BalanceList[qsr], d.Amount)
		t := findToken(cfg, qsr)
		t.TotalSupply.Add(t.TotalSupply, d.Amount)
		t.MaxSupply.Add(t.MaxSupply, d.Amount)
		cfg.PlasmaConfig.Fusions = insertAt(l, c.Pick("variant.pos", len(l)+1), &d)
		return fmt.Sprintf("%s: fusion %v/%v listed twice, contract balance and supply cover both", kind, d.Owner, d.Id), true
	}
	panic("unknown variant " + kind)
}

// checkBuilt starts a chain on the accepted configuration and evaluates, on the built state only,
// the C01 identity, the faithfulness of the token table and the backing of the pillar / plasma /
// swap contracts. It returns false when a (tolerated, known) deviation was seen.
func checkBuilt(c *pbt.C, cfg *genesis.GenesisConfig, label string) bool {
	var n *node
	var err error
	var pv interface{}
	func() {
		defer func() {
			if p := recover(); p != nil {
				pv = p
			}
		}()
		n, err = start(tempDir(c), cloneCfg(cfg))
	}()
	if pv != nil {
		c.Failf("C20/accepted-build-panic", "%s: accepted by CheckGenesis but building / starting panicked: %v", label, pv)
		return false
	}
	if err != nil {
		c.Failf("C20/accepted-init-error", "%s: accepted by CheckGenesis but chain.Init on a fresh database failed: %v", label, err)
		return false
	}
	defer n.stop()
	clean := true

	// C01 identity on the built ledger (scanner: raw key space + account chains)
	msg, _, ledger, err := sim.CheckSupply(&sim.Node{Mgr: n.mgr, Chain: n.ch})
	if err != nil {
		panic(err)
	}
	if msg != "" {
		c.Failf("C20/accepted-but-inconsistent", "%s: CheckGenesis accepted the configuration but the built state violates the supply identity: %s", label, msg)
		clean = false
	}
	// independent recomputation against the declared supplies
	declared := map[types.ZenonTokenStandard]*big.Int{}
	dupToken := false
	for _, t := range cfg.TokenConfig.Tokens {
		if declared[t.TokenStandard] != nil {
			dupToken = true
		}
		declared[t.TokenStandard] = t.TotalSupply
	}
	if !dupToken && clean {
		sum := map[types.ZenonTokenStandard]*big.Int{}
		for _, a := range ledger.Accounts {
			for _, z := range sortedZts(ledger.Balances[a]) {
				if sum[z] == nil {
					sum[z] = new(big.Int)
				}
				sum[z].Add(sum[z], ledger.Balances[a][z])
			}
		}
		for _, t := range cfg.TokenConfig.Tokens {
			got := sum[t.TokenStandard]
			if got == nil {
				got = new(big.Int)
			}
			if got.Cmp(t.TotalSupply) != 0 {
				c.Failf("C20/accepted-but-inconsistent", "%s: token %v declared with supply %v, built balances sum to %v", label, t.TokenStandard, t.TotalSupply, got)
				clean = false
			}
			ti, err := definition.GetTokenInfo(n.ch.GetFrontierAccountStore(types.TokenContract).Storage(), t.TokenStandard)
			if err != nil || ti.TotalSupply.Cmp(t.TotalSupply) != 0 {
				c.Failf("C20/built-state-differs-from-config", "%s: token %v: built token table entry %+v (err %v), declared supply %v", label, t.TokenStandard, ti, err, t.TotalSupply)
			}
		}
	}

	balance := func(a types.Address, z types.ZenonTokenStandard) *big.Int {
		v, err := n.ch.GetFrontierAccountStore(a).GetBalance(z)
		if err != nil {
			panic(err)
		}
		return v
	}
	// pillar contract: holdings vs registered collateral
	names := map[string]bool{}
	distinctNames := true
	for _, p := range cfg.PillarConfig.Pillars {
		if names[p.Name] {
			distinctNames = false
		}
		names[p.Name] = true
	}
	builtPillars, err := definition.GetPillarsList(n.ch.GetFrontierAccountStore(types.PillarContract).Storage(), false, definition.AnyPillarType)
	if err != nil {
		panic(err)
	}
	held, locked := balance(types.PillarContract, znn), sumPillars(builtPillars)
	switch {
	case held.Cmp(locked) < 0:
		c.Failf("C20/accepted-unbacked-contract", "%s: pillar contract holds %v ZNN but the registered pillars carry %v", label, held, locked)
		clean = false
	case distinctNames && (held.Cmp(locked) != 0 || locked.Cmp(sumPillars(cfg.PillarConfig.Pillars)) != 0):
		c.Failf("C20/accepted-unbacked-contract", "%s: pillar contract holds %v ZNN, built pillars carry %v, configured pillars %v", label, held, locked, sumPillars(cfg.PillarConfig.Pillars))
		clean = false
	case held.Cmp(locked) > 0:
		c.R.Count("stranded-funds:pillar (duplicate name, observation only)", 1)
	}
	// plasma contract: holdings vs fusion entries and fused amounts
	keys := map[string]bool{}
	distinctKeys := true
	var owners, bens []types.Address
	seenO, seenB := map[types.Address]bool{}, map[types.Address]bool{}
	for _, f := range cfg.PlasmaConfig.Fusions {
		k := f.Owner.String() + f.Id.String()
		if keys[k] {
			distinctKeys = false
		}
		keys[k] = true
		if !seenO[f.Owner] {
			seenO[f.Owner] = true
			owners = append(owners, f.Owner)
		}
		if !seenB[f.Beneficiary] {
			seenB[f.Beneficiary] = true
			bens = append(bens, f.Beneficiary)
		}
	}
	plasma := n.ch.GetFrontierAccountStore(types.PlasmaContract).Storage()
	locked = new(big.Int)
	entries := 0
	for _, o := range owners {
		l, total, err := definition.GetFusionInfoListByOwner(plasma, o)
		if err != nil {
			panic(err)
		}
		entries += len(l)
		locked.Add(locked, total)
	}
	fused := new(big.Int)
	for _, b := range bens {
		fa, err := definition.GetFusedAmount(plasma, b)
		if err != nil {
			panic(err)
		}
		fused.Add(fused, fa.Amount)
	}
	held = balance(types.PlasmaContract, qsr)
	want := sumFusions(cfg.PlasmaConfig.Fusions)
	switch {
	case held.Cmp(locked) < 0:
		c.Failf("C20/accepted-unbacked-contract", "%s: plasma contract holds %v QSR but the fusion entries carry %v", label, held, locked)
		clean = false
	case distinctKeys && (held.Cmp(locked) != 0 || locked.Cmp(want) != 0 || entries != len(cfg.PlasmaConfig.Fusions)):
		c.Failf("C20/accepted-unbacked-contract", "%s: plasma contract holds %v QSR, %d built fusion entries carry %v, %d configured fusions %v", label, held, entries, locked, len(cfg.PlasmaConfig.Fusions), want)
		clean = false
	case held.Cmp(locked) > 0:
		c.R.Count("stranded-funds:plasma (duplicate fusion key, observation only)", 1)
	}
	if fused.Cmp(want) != 0 {
		c.Failf("C20/built-state-differs-from-config", "%s: fused amounts of the beneficiaries sum to %v, configured fusions to %v", label, fused, want)
	}
	// swap contract holds nothing
	bm, err := n.ch.GetFrontierAccountStore(types.SwapContract).GetBalanceMap()
	if err != nil {
		panic(err)
	}
	for _, z := range sortedZts(bm) {
		if bm[z].Sign() != 0 {
			c.Failf("C20/accepted-but-inconsistent", "%s: swap contract holds %v of %v at genesis", label, bm[z], z)
			clean = false
		}
	}
	return clean
}

func TestC20Validation(t *testing.T) {
	sim.Silence()
	pbt.Check(t, "C20", func(c *pbt.C) {
		saveGlobals(c)
		m := genModel(c)
		cfg := m.config()
		c.Note("config: %s", describe(cfg))
		sized := bigEnough(cfg)
		if sized {
			c.Class("size>=3tok/4acc/2fus")
		}
		// every constructed configuration is accepted, in any list order
		subject := cloneCfg(cfg)
		if c.Bool("permuteFirst") {
			if moved := permute(c, subject, nil); len(moved) > 0 {
				c.Class("validated-in-permuted-order")
			}
		}
		err, pv := check(subject)
		if pv != nil {
			c.Failf("C20/check-panic", "CheckGenesis panicked on a consistent configuration: %v", pv)
			return
		}
		if err != nil {
			c.Failf("C20/consistent-rejected", "CheckGenesis rejected a consistent configuration: %v", err)
			return
		}
		checkBuilt(c, subject, "constructed configuration")

		// single-entry perturbations
		np := c.Int("perturbations", 3, 8)
		for i := 0; i < np; i++ {
			kind := perturbKinds[c.Pick("perturb.kind", len(perturbKinds))]
			p := cloneCfg(subject)
			descr, ok, vacuous := perturb(c, p, kind)
			if !ok {
				c.Class("perturb-n/a:" + kind)
				continue
			}
			c.Step()
			if kind == "null-amount" {
				// not demanded by the property: recorded, never failed
				err, pv := check(p)
				out := "rejected"
				if pv != nil {
					out = "CheckGenesis-panics"
				} else if err == nil {
					out = "accepted"
				}
				c.Class("observation:null-" + vacuous + "-amount:" + out)
				c.Note("observation %q -> %s", descr, out)
				continue
			}
			c.Class("perturb:" + kind)
			err, pv := check(p)
			if pv != nil {
				c.Failf("C20/check-panic", "CheckGenesis panicked on perturbation %q: %v", descr, pv)
				continue
			}
			c.Note("perturbation %q -> %v", descr, err)
			if err == nil {
				if vacuous != "" {
					// same root cause as the missing-block variants: no block of the contract, nothing compared
					c.Failf("C20/accepted-unbacked-contract", "perturbation %q accepted: the %s contract has no genesis block, so its requirement is compared with nothing", descr, vacuous)
					continue
				}
				c.Failf("C20/perturbed-accepted", "CheckGenesis accepted perturbation %q of a consistent configuration", descr)
				continue
			}
			if sized {
				c.NonTrivial()
				c.NonTrivialItem("perturb:" + kind)
			}
		}

		// classes without a demanded validator outcome: accepted => consistent built state
		nv := c.Int("variants", 1, 3)
		for i := 0; i < nv; i++ {
			kind := variantKinds[c.Pick("variant.kind", len(variantKinds))]
			v := cloneCfg(subject)
			descr, ok := variant(c, v, kind)
			if !ok {
				c.Class("variant-n/a:" + kind)
				continue
			}
			c.Step()
			err, pv := check(v)
			if pv != nil {
				c.Failf("C20/check-panic", "CheckGenesis panicked on %q: %v", descr, pv)
				continue
			}
			if err != nil {
				c.Class("variant-rejected:" + kind)
				c.Note("variant %q rejected: %v", descr, err)
				continue
			}
			c.Class("variant-accepted:" + kind)
			clean := checkBuilt(c, v, descr)
			c.Note("variant %q accepted, built state consistent: %v", descr, clean)
			if clean {
				c.Class("variant-accepted-consistent:" + kind)
			} else {
				c.Class("variant-accepted-INCONSISTENT(known):" + kind)
			}
			if sized {
				c.NonTrivial()
				c.NonTrivialItem("variant:" + kind)
			}
		}
	})
}

// ---- database mismatch ---------------------------------------------------------------------------

var bKinds = []string{"changed", "permuted", "unrelated", "json", "same", "spork-address-only", "changed", "changed"}

func TestC20DatabaseMismatch(t *testing.T) {
	sim.Silence()
	pbt.Check(t, "C20", func(c *pbt.C) {
		saveGlobals(c)
		var cfgA *genesis.GenesisConfig
		var dir string
		grown := c.Weighted("grown", pbt.Scale(4, 3), 1) == 1
		height := uint64(1)
		if grown {
			// a database that already holds momentums after the genesis (producing world of the sim package)
			c.Class("database-with-history")
			spec := sim.DefaultSpec(c.Int("spec.pillars", 1, 3), c.Int("spec.users", 2, 5))
			spec.ChainID = c.Uint64("chainID", 1, 100000)
			spec.Tokens = []sim.TokenSpec{{Zts: synthZts(0), Owner: sim.UserKey(0).Address, Name: "GenTok", Symbol: "GT",
				Max: big.NewInt(1 << 40), Mintable: true, Burnable: true}}
			for i := range spec.Users {
				spec.Users[i].Znn = int64(c.Int("spec.znn", 1, 50000))
				spec.Users[i].Extra = map[int]int64{0: int64(c.Int("spec.extra", 1, 100000))}
			}
			w := sim.NewWorld(spec, sim.WorldOpts{})
			c.Cleanup(w.Close)
			cfgA = w.Cfg
			n := w.AddNode("a", true)
			k := c.Int("momentums", 1, 4)
			for i := 0; i < k; i++ {
				if err := n.Produce(0); err != nil {
					panic(fmt.Sprintf("producing momentum %d: %v", i, err))
				}
			}
			height = n.Height()
			dir = n.Dir
			n.Stop()
		} else {
			c.Class("database-genesis-only")
			cfgA = genModel(c).config()
			dir = tempDir(c)
			n, err := start(dir, cfgA)
			if err != nil {
				c.Failf("C20/init-failed", "chain.Init on a fresh database failed: %v", err)
				return
			}
			n.stop()
		}
		c.Note("A: %s; database height %d", describe(cfgA), height)
		hashA := construct(cfgA)
		if hashA.panicv != nil {
			panic(hashA.panicv)
		}

		kind := bKinds[c.Pick("B.kind", len(bKinds))]
		cfgB := cloneCfg(cfgA)
		expectSame := true
		switch kind {
		case "same":
		case "permuted":
			if len(permute(c, cfgB, nil)) == 0 {
				kind = "same"
			}
		case "json":
			cfgB = new(genesis.GenesisConfig)
			if err := json.Unmarshal(mustJSON(cfgA), cfgB); err != nil {
				panic(err)
			}
		case "spork-address-only":
			// not part of the ledger: whether the hash moves is decided by the hash itself
			a := synthAddr("other-spork-address", 0)
			cfgB.SporkAddress = &a
		case "changed":
			what := differ(c, cfgB)
			c.Note("B differs from A: %s", what)
			expectSame = false
		case "unrelated":
			cfgB = genModel(c).config()
			expectSame = false
		}
		c.Class("B:" + kind)
		hashB := construct(cfgB)
		if hashB.panicv != nil {
			panic(hashB.panicv)
		}
		equal := hashA.hash == hashB.hash
		if kind != "spork-address-only" && equal != expectSame {
			if expectSame {
				c.Failf("C20/order-dependent", "B (%s) is the same configuration as A but has genesis hash %v instead of %v", kind, hashB.hash, hashA.hash)
			} else {
				c.Failf("C20/different-config-same-hash", "B (%s) differs from A but has the same genesis hash %v", kind, hashA.hash)
			}
			return
		}
		c.Note("B: %s; kind %s; hash(A)=%v hash(B)=%v", describe(cfgB), kind, hashA.hash, hashB.hash)

		before := rawDump(dir)
		nB, err := start(dir, cfgB)
		if equal {
			c.Class("equal-hash")
			if err != nil {
				c.Failf("C20/same-genesis-refused", "chain.Init refused a database created with the same genesis (%s): %v", kind, err)
				return
			}
			m, err := nB.ch.GetFrontierMomentumStore().GetFrontierMomentum()
			if err != nil {
				panic(err)
			}
			g1, err := nB.ch.GetFrontierMomentumStore().GetMomentumByHeight(1)
			if err != nil {
				panic(err)
			}
			nB.stop()
			if m.Height != height {
				c.Failf("C20/restart-changed-database", "after a restart with the same genesis the frontier is at height %d, was %d", m.Height, height)
			}
			if g1.Hash != hashA.hash {
				c.Failf("C20/restart-changed-database", "after a restart the stored genesis is %v, was %v", g1.Hash, hashA.hash)
			}
			if after := rawDump(dir); after != before {
				c.Failf("C20/restart-changed-database", "restart with the same genesis modified the database: %s", firstDiff(before, after))
			}
		} else {
			c.Class("different-hash")
			if err == nil {
				nB.stop()
				c.Failf("C20/mismatch-accepted", "chain.Init accepted a database whose genesis is %v while the configured genesis is %v (%s)", hashA.hash, hashB.hash, kind)
				return
			}
			c.Note("Init with B: %v", err)
			if after := rawDump(dir); after != before {
				c.Failf("C20/mismatch-modified-database", "the refused start modified the database: %s", firstDiff(before, after))
			}
			// the database still works with its own genesis
			nA, err := start(dir, cfgA)
			if err != nil {
				c.Failf("C20/mismatch-broke-database", "after the refused start, a start with the original genesis fails: %v", err)
				return
			}
			m, err := nA.ch.GetFrontierMomentumStore().GetFrontierMomentum()
			if err != nil {
				panic(err)
			}
			nA.stop()
			if m.Height != height {
				c.Failf("C20/mismatch-modified-database", "frontier height %d after the refused start, was %d", m.Height, height)
			}
			if after := rawDump(dir); after != before {
				c.Failf("C20/mismatch-modified-database", "database differs after refused start + restart with A: %s", firstDiff(before, after))
			}
		}
		if bigEnough(cfgA) && kind != "same" {
			c.NonTrivial()
		}
	})
}
