package p20

// Generator of constructively consistent genesis configurations for C20, list permutations,
// single-entry perturbations and the helpers that build / start / dump a configuration.

import (
	"bytes"
	"crypto/sha256"
	"encoding/hex"
	"fmt"
	"math/big"
	"os"
	"sort"
	"strings"

	"github.com/syndtr/goleveldb/leveldb"
	"github.com/syndtr/goleveldb/leveldb/opt"

	"github.com/zenon-network/go-zenon/chain"
	"github.com/zenon-network/go-zenon/chain/genesis"
	"github.com/zenon-network/go-zenon/common/db"
	"github.com/zenon-network/go-zenon/common/types"
	"github.com/zenon-network/go-zenon/vm/constants"
	"github.com/zenon-network/go-zenon/vm/embedded/definition"

	"verifharness/pbt"
)

var (
	znn = types.ZnnTokenStandard
	qsr = types.QsrTokenStandard
	// embedded contracts that may hold plain balances at genesis (no validator constrains them)
	heldEmbedded = []types.Address{types.TokenContract, types.StakeContract, types.SporkContract,
		types.AcceleratorContract, types.SentinelContract, types.LiquidityContract}
)

func synthHash(tag string, i int) types.Hash {
	return types.NewHash([]byte(fmt.Sprintf("c20-%s-%d", tag, i)))
}
func synthAddr(tag string, i int) types.Address {
	var a types.Address
	a[0] = types.UserAddrByte
	copy(a[1:], synthHash(tag, i).Bytes())
	return a
}
func userAddr(i int) types.Address { return synthAddr("user", i) }
func synthZts(i int) types.ZenonTokenStandard {
	var z types.ZenonTokenStandard
	copy(z[:], synthHash("token", i).Bytes())
	return z
}

type balE struct {
	tok int
	amt *big.Int
}
type acctM struct {
	addr types.Address
	bal  []balE // distinct token indices
}

// model is a consistent-by-construction description; contract balances and token supplies
// are derived in config().
type model struct {
	chainID   uint64
	ts        int64
	extra     string
	sporkAddr types.Address
	tokens    []*definition.TokenInfo // [0] ZNN, [1] QSR, then extra tokens; supplies derived
	maxExtra  []*big.Int              // MaxSupply = TotalSupply + maxExtra
	accts     []acctM
	pillars   []*definition.PillarInfo
	delegs    []*definition.DelegationInfo
	legacy    []*definition.LegacyPillarEntry
	fusions   []*definition.FusionInfo
	swaps     []*definition.SwapAssets
	sporks    []*definition.Spork
	noSporks  bool
	// presentation choices the validators allow
	zeroPillarBlock bool // a pillar-contract block is listed although its requirement is 0
	zeroPlasmaBlock bool
	swapBlock       int // 0: no swap-contract block, 1: empty balance list, 2: explicit zeros
}

func amount(c *pbt.C, label string) *big.Int {
	switch c.Weighted(label+".mag", 2, 4, 3, 1) {
	case 0:
		return new(big.Int).SetUint64(c.Uint64(label, 0, 3))
	case 1:
		return new(big.Int).SetUint64(c.Uint64(label, 0, 1000000000))
	case 2:
		return new(big.Int).SetUint64(c.Uint64(label, 0, 1<<62))
	default:
		return new(big.Int).SetBytes(c.Bytes(label, 9, 14))
	}
}

func posAmount(c *pbt.C, label string) *big.Int {
	a := amount(c, label)
	if a.Sign() == 0 {
		a.SetInt64(1)
	}
	return a
}

const alphabet = "abcdefghijklmnopqrstuvwxyz0123456789 -_/:#é世"

func text(c *pbt.C, label string, max int) string {
	b := c.Bytes(label, 0, max)
	r := []rune(alphabet)
	var sb strings.Builder
	for _, x := range b {
		sb.WriteRune(r[int(x)%len(r)])
	}
	return sb.String()
}

// distinct draws k distinct indices from [0,n) (draw + linear probing keeps shrinking simple).
func distinct(c *pbt.C, label string, k, n int) []int {
	used := make([]bool, n)
	out := make([]int, 0, k)
	for len(out) < k && len(out) < n {
		i := c.Pick(label, n)
		for used[i] {
			i = (i + 1) % n
		}
		used[i] = true
		out = append(out, i)
	}
	return out
}

// genModel draws a model. Sizes are biased so that the non-trivial rule (>=3 tokens, >=4
// accounts, >=2 fusions) is met by most cases.
func genModel(c *pbt.C) *model {
	m := &model{
		chainID: c.Uint64("chainID", 1, 100000),
		ts:      int64(c.Uint64("timestamp", 1, 4000000000)),
		extra:   text(c, "extra", 24),
	}
	m.sporkAddr = userAddr(c.Pick("sporkAddr", 32))
	m.tokens = []*definition.TokenInfo{
		{Owner: types.PillarContract, TokenName: "Zenon Coin", TokenSymbol: "ZNN", TokenDomain: "zenon.network", Decimals: 8,
			IsMintable: true, IsBurnable: true, IsUtility: true, TokenStandard: znn},
		{Owner: types.StakeContract, TokenName: "QuasarCoin", TokenSymbol: "QSR", TokenDomain: "zenon.network", Decimals: 8,
			IsMintable: true, IsBurnable: true, IsUtility: true, TokenStandard: qsr},
	}
	nExtra := c.Weighted("tokens.extra", 1, 3, 3, 2, 1)
	for _, ti := range distinct(c, "token.id", nExtra, 12) {
		m.tokens = append(m.tokens, &definition.TokenInfo{Owner: userAddr(c.Pick("token.owner", 32)),
			TokenName: fmt.Sprintf("Tok%d", ti), TokenSymbol: fmt.Sprintf("T%d", ti), TokenDomain: "verif.test",
			Decimals: uint8(c.Int("token.decimals", 0, 18)), IsMintable: c.Bool("token.mintable"), IsBurnable: c.Bool("token.burnable"),
			IsUtility: c.Bool("token.utility"), TokenStandard: synthZts(ti)})
	}
	for range m.tokens {
		m.maxExtra = append(m.maxExtra, amount(c, "token.maxExtra"))
	}

	nAcc := c.Int("accounts", 1, 10)
	for _, ai := range distinct(c, "account.id", nAcc, 32) {
		m.accts = append(m.accts, acctM{addr: userAddr(ai)})
	}
	nEmb := c.Weighted("accounts.embedded", 4, 2, 1)
	for _, ei := range distinct(c, "account.embedded", nEmb, len(heldEmbedded)) {
		m.accts = append(m.accts, acctM{addr: heldEmbedded[ei]})
	}
	held := make([]bool, len(m.tokens))
	for i := range m.accts {
		for t := range m.tokens {
			w := 1
			if t < 2 {
				w = 3
			}
			if (i == 0 && t < 2) || c.Weighted("bal.has", 2, w) == 1 {
				m.accts[i].bal = append(m.accts[i].bal, balE{t, amount(c, "bal")})
				held[t] = true
			}
		}
	}
	for t := range m.tokens {
		if !held[t] { // a declared token must be given to somebody (possibly amount 0)
			i := c.Pick("bal.holder", len(m.accts))
			m.accts[i].bal = append(m.accts[i].bal, balE{t, amount(c, "bal")})
		}
	}

	nPil := c.Weighted("pillars", 1, 2, 2, 2, 1)
	for _, pi := range distinct(c, "pillar.id", nPil, 12) {
		amt := new(big.Int).Set(constants.PillarStakeAmount)
		if c.Bool("pillar.oddAmount") {
			amt = amount(c, "pillar.amount")
		}
		m.pillars = append(m.pillars, &definition.PillarInfo{Name: fmt.Sprintf("P20-pillar-%d", pi),
			BlockProducingAddress: synthAddr("producer", pi), RewardWithdrawAddress: userAddr(c.Pick("pillar.withdraw", 32)),
			StakeAddress: userAddr(c.Pick("pillar.stake", 32)), Amount: amt, RegistrationTime: m.ts,
			RevokeTime:                   0,
			GiveBlockRewardPercentage:    uint8(c.Int("pillar.blockPct", 0, 100)),
			GiveDelegateRewardPercentage: uint8(c.Int("pillar.delegPct", 0, 100)),
			PillarType:                   uint8(c.Int("pillar.type", 0, 1))})
	}
	nDel := c.Int("delegations", 0, 4)
	for _, di := range distinct(c, "deleg.backer", nDel, 32) {
		name := fmt.Sprintf("P20-pillar-%d", c.Pick("deleg.pillar", 12))
		m.delegs = append(m.delegs, &definition.DelegationInfo{Backer: userAddr(di), Name: name})
	}
	nLeg := c.Weighted("legacy", 2, 1, 2, 1)
	for _, li := range distinct(c, "legacy.key", nLeg, 8) {
		m.legacy = append(m.legacy, &definition.LegacyPillarEntry{KeyIdHash: synthHash("legacy", li), PillarCount: uint8(c.Int("legacy.count", 1, 3))})
	}
	nFus := c.Weighted("fusions", 1, 1, 3, 3, 2, 1)
	for _, fi := range distinct(c, "fusion.id", nFus, 16) {
		m.fusions = append(m.fusions, &definition.FusionInfo{Owner: userAddr(c.Pick("fusion.owner", 6)), Id: synthHash("fusion", fi%4),
			Amount: amount(c, "fusion.amount"), ExpirationHeight: c.Uint64("fusion.expiration", 0, 1000),
			Beneficiary: userAddr(c.Pick("fusion.beneficiary", 6))})
		// (owner,id) must be distinct: ids repeat over owners (fi%4) on purpose, owners are made distinct per id below
	}
	fixFusionKeys(m.fusions)
	nSwap := c.Weighted("swaps", 2, 1, 2, 2)
	for _, si := range distinct(c, "swap.key", nSwap, 8) {
		e := &definition.SwapAssets{KeyIdHash: synthHash("swap", si), Znn: new(big.Int), Qsr: new(big.Int)}
		if c.Bool("swap.nonzero") { // the validator only asks for a zero balance of the contract, entries may promise amounts
			e.Znn, e.Qsr = amount(c, "swap.znn"), amount(c, "swap.qsr")
		}
		m.swaps = append(m.swaps, e)
	}
	m.noSporks = c.Weighted("sporkCfg.nil", 4, 1) == 1
	if !m.noSporks {
		impl := []types.Hash{types.AcceleratorSpork.SporkId, types.HtlcSpork.SporkId, types.BridgeAndLiquiditySpork.SporkId}
		nSp := c.Int("sporks", 0, 4)
		for _, si := range distinct(c, "spork.id", nSp, 7) {
			sp := &definition.Spork{Name: text(c, "spork.name", 8), Description: text(c, "spork.descr", 12), Activated: c.Bool("spork.activated")}
			if si < 3 {
				sp.Id = impl[si]
				sp.EnforcementHeight = c.Uint64("spork.height", 0, 50)
			} else {
				sp.Id = synthHash("spork", si)
				// an activated spork this binary does not implement ends the process (os.Exit) at start-up
				// once enforced: real configurations never do that, keep it far away
				sp.EnforcementHeight = c.Uint64("spork.height", 100000, 200000)
			}
			if !sp.Activated {
				sp.EnforcementHeight = 0
			}
			m.sporks = append(m.sporks, sp)
		}
	}
	m.zeroPillarBlock = c.Bool("block.pillarZero")
	m.zeroPlasmaBlock = c.Bool("block.plasmaZero")
	m.swapBlock = c.Weighted("block.swap", 3, 1, 1)
	return m
}

// fixFusionKeys makes (owner,id) pairs distinct by moving a colliding entry to a fresh id.
func fixFusionKeys(l []*definition.FusionInfo) {
	seen := map[string]bool{}
	for i, f := range l {
		k := f.Owner.String() + f.Id.String()
		for n := 0; seen[k]; n++ {
			f.Id = synthHash("fusion-alt", i*100+n)
			k = f.Owner.String() + f.Id.String()
		}
		seen[k] = true
	}
}

func sumPillars(l []*definition.PillarInfo) *big.Int {
	s := new(big.Int)
	for _, p := range l {
		s.Add(s, p.Amount)
	}
	return s
}
func sumFusions(l []*definition.FusionInfo) *big.Int {
	s := new(big.Int)
	for _, f := range l {
		s.Add(s, f.Amount)
	}
	return s
}

// config materialises the model into a fresh (deep) configuration.
func (m *model) config() *genesis.GenesisConfig {
	sa := m.sporkAddr
	cfg := &genesis.GenesisConfig{ChainIdentifier: m.chainID, ExtraData: m.extra, GenesisTimestampSec: m.ts, SporkAddress: &sa,
		PillarConfig: &genesis.PillarContractConfig{}, TokenConfig: &genesis.TokenContractConfig{}, PlasmaConfig: &genesis.PlasmaContractConfig{},
		SwapConfig: &genesis.SwapContractConfig{}, GenesisBlocks: &genesis.GenesisBlocksConfig{}}
	supply := make([]*big.Int, len(m.tokens))
	for i := range supply {
		supply[i] = new(big.Int)
	}
	for _, a := range m.accts {
		bl := map[types.ZenonTokenStandard]*big.Int{}
		for _, e := range a.bal {
			bl[m.tokens[e.tok].TokenStandard] = new(big.Int).Set(e.amt)
			supply[e.tok].Add(supply[e.tok], e.amt)
		}
		cfg.GenesisBlocks.Blocks = append(cfg.GenesisBlocks.Blocks, &genesis.GenesisBlockConfig{Address: a.addr, BalanceList: bl})
	}
	ps, fs := sumPillars(m.pillars), sumFusions(m.fusions)
	if ps.Sign() > 0 || m.zeroPillarBlock {
		cfg.GenesisBlocks.Blocks = append(cfg.GenesisBlocks.Blocks, &genesis.GenesisBlockConfig{Address: types.PillarContract,
			BalanceList: map[types.ZenonTokenStandard]*big.Int{znn: new(big.Int).Set(ps)}})
		supply[0].Add(supply[0], ps)
	}
	if fs.Sign() > 0 || m.zeroPlasmaBlock {
		cfg.GenesisBlocks.Blocks = append(cfg.GenesisBlocks.Blocks, &genesis.GenesisBlockConfig{Address: types.PlasmaContract,
			BalanceList: map[types.ZenonTokenStandard]*big.Int{qsr: new(big.Int).Set(fs)}})
		supply[1].Add(supply[1], fs)
	}
	switch m.swapBlock {
	case 1:
		cfg.GenesisBlocks.Blocks = append(cfg.GenesisBlocks.Blocks, &genesis.GenesisBlockConfig{Address: types.SwapContract,
			BalanceList: map[types.ZenonTokenStandard]*big.Int{}})
	case 2:
		cfg.GenesisBlocks.Blocks = append(cfg.GenesisBlocks.Blocks, &genesis.GenesisBlockConfig{Address: types.SwapContract,
			BalanceList: map[types.ZenonTokenStandard]*big.Int{znn: new(big.Int), qsr: new(big.Int)}})
	}
	for i, t := range m.tokens {
		ti := *t
		ti.TotalSupply = supply[i]
		ti.MaxSupply = new(big.Int).Add(supply[i], m.maxExtra[i])
		cfg.TokenConfig.Tokens = append(cfg.TokenConfig.Tokens, &ti)
	}
	tmp := &genesis.GenesisConfig{PillarConfig: &genesis.PillarContractConfig{Pillars: m.pillars, Delegations: m.delegs, LegacyEntries: m.legacy},
		PlasmaConfig: &genesis.PlasmaContractConfig{Fusions: m.fusions}, SwapConfig: &genesis.SwapContractConfig{Entries: m.swaps}}
	if !m.noSporks {
		tmp.SporkConfig = &genesis.SporkConfig{Sporks: m.sporks}
	}
	cp := cloneCfg(tmp)
	cfg.PillarConfig, cfg.PlasmaConfig, cfg.SwapConfig, cfg.SporkConfig = cp.PillarConfig, cp.PlasmaConfig, cp.SwapConfig, cp.SporkConfig
	return cfg
}

func cpBig(v *big.Int) *big.Int {
	if v == nil {
		return nil
	}
	return new(big.Int).Set(v)
}

// cloneCfg is a hand-written deep copy (independent of the JSON codec, which is itself under test).
func cloneCfg(g *genesis.GenesisConfig) *genesis.GenesisConfig {
	o := &genesis.GenesisConfig{ChainIdentifier: g.ChainIdentifier, ExtraData: g.ExtraData, GenesisTimestampSec: g.GenesisTimestampSec}
	if g.SporkAddress != nil {
		a := *g.SporkAddress
		o.SporkAddress = &a
	}
	if g.PillarConfig != nil {
		o.PillarConfig = &genesis.PillarContractConfig{}
		for _, p := range g.PillarConfig.Pillars {
			x := *p
			x.Amount = cpBig(p.Amount)
			o.PillarConfig.Pillars = append(o.PillarConfig.Pillars, &x)
		}
		for _, d := range g.PillarConfig.Delegations {
			x := *d
			o.PillarConfig.Delegations = append(o.PillarConfig.Delegations, &x)
		}
		for _, l := range g.PillarConfig.LegacyEntries {
			x := *l
			o.PillarConfig.LegacyEntries = append(o.PillarConfig.LegacyEntries, &x)
		}
	}
	if g.TokenConfig != nil {
		o.TokenConfig = &genesis.TokenContractConfig{}
		for _, t := range g.TokenConfig.Tokens {
			x := *t
			x.TotalSupply, x.MaxSupply = cpBig(t.TotalSupply), cpBig(t.MaxSupply)
			o.TokenConfig.Tokens = append(o.TokenConfig.Tokens, &x)
		}
	}
	if g.PlasmaConfig != nil {
		o.PlasmaConfig = &genesis.PlasmaContractConfig{}
		for _, f := range g.PlasmaConfig.Fusions {
			x := *f
			x.Amount = cpBig(f.Amount)
			o.PlasmaConfig.Fusions = append(o.PlasmaConfig.Fusions, &x)
		}
	}
	if g.SwapConfig != nil {
		o.SwapConfig = &genesis.SwapContractConfig{}
		for _, e := range g.SwapConfig.Entries {
			x := *e
			x.Znn, x.Qsr = cpBig(e.Znn), cpBig(e.Qsr)
			o.SwapConfig.Entries = append(o.SwapConfig.Entries, &x)
		}
	}
	if g.SporkConfig != nil {
		o.SporkConfig = &genesis.SporkConfig{}
		for _, s := range g.SporkConfig.Sporks {
			x := *s
			o.SporkConfig.Sporks = append(o.SporkConfig.Sporks, &x)
		}
	}
	if g.GenesisBlocks != nil {
		o.GenesisBlocks = &genesis.GenesisBlocksConfig{}
		for _, b := range g.GenesisBlocks.Blocks {
			x := &genesis.GenesisBlockConfig{Address: b.Address}
			if b.BalanceList != nil {
				x.BalanceList = map[types.ZenonTokenStandard]*big.Int{}
				for z, v := range b.BalanceList { // copying into a map: order is irrelevant
					x.BalanceList[z] = cpBig(v)
				}
			}
			o.GenesisBlocks.Blocks = append(o.GenesisBlocks.Blocks, x)
		}
	}
	return o
}

// shuffle draws a Fisher-Yates permutation and reports whether the order changed.
func shuffle(c *pbt.C, label string, n int, swap func(i, j int)) bool {
	moved := false
	for i := n - 1; i > 0; i-- {
		j := c.Int(label, 0, i)
		if j != i {
			swap(i, j)
			moved = true
		}
	}
	return moved
}

// permute reorders every unordered list of cfg in place (lists named in skip are left alone:
// they contain entries colliding on a key and therefore carry order).
func permute(c *pbt.C, cfg *genesis.GenesisConfig, skip map[string]bool) (moved []string) {
	do := func(name string, n int, swap func(i, j int)) {
		if skip[name] || n < 2 {
			return
		}
		if shuffle(c, "perm."+name, n, swap) {
			moved = append(moved, name)
		}
	}
	b := cfg.GenesisBlocks.Blocks
	do("blocks", len(b), func(i, j int) { b[i], b[j] = b[j], b[i] })
	t := cfg.TokenConfig.Tokens
	do("tokens", len(t), func(i, j int) { t[i], t[j] = t[j], t[i] })
	p := cfg.PillarConfig.Pillars
	do("pillars", len(p), func(i, j int) { p[i], p[j] = p[j], p[i] })
	d := cfg.PillarConfig.Delegations
	do("delegations", len(d), func(i, j int) { d[i], d[j] = d[j], d[i] })
	l := cfg.PillarConfig.LegacyEntries
	do("legacy", len(l), func(i, j int) { l[i], l[j] = l[j], l[i] })
	f := cfg.PlasmaConfig.Fusions
	do("fusions", len(f), func(i, j int) { f[i], f[j] = f[j], f[i] })
	s := cfg.SwapConfig.Entries
	do("swaps", len(s), func(i, j int) { s[i], s[j] = s[j], s[i] })
	if cfg.SporkConfig != nil {
		sp := cfg.SporkConfig.Sporks
		do("sporks", len(sp), func(i, j int) { sp[i], sp[j] = sp[j], sp[i] })
	}
	return moved
}

func sortedZts(m map[types.ZenonTokenStandard]*big.Int) []types.ZenonTokenStandard {
	l := make([]types.ZenonTokenStandard, 0, len(m))
	for z := range m {
		l = append(l, z)
	}
	sort.Slice(l, func(i, j int) bool { return bytes.Compare(l[i][:], l[j][:]) < 0 })
	return l
}

func findBlock(cfg *genesis.GenesisConfig, a types.Address) int {
	for i, b := range cfg.GenesisBlocks.Blocks {
		if b.Address == a {
			return i
		}
	}
	return -1
}
func findToken(cfg *genesis.GenesisConfig, z types.ZenonTokenStandard) *definition.TokenInfo {
	for _, t := range cfg.TokenConfig.Tokens {
		if t.TokenStandard == z {
			return t
		}
	}
	return nil
}

func describe(cfg *genesis.GenesisConfig) string {
	sp := "nil"
	if cfg.SporkConfig != nil {
		sp = fmt.Sprint(len(cfg.SporkConfig.Sporks))
	}
	return fmt.Sprintf("chain=%d ts=%d extra=%q blocks=%d tokens=%d pillars=%d delegations=%d legacy=%d fusions=%d swaps=%d sporks=%s",
		cfg.ChainIdentifier, cfg.GenesisTimestampSec, cfg.ExtraData, len(cfg.GenesisBlocks.Blocks), len(cfg.TokenConfig.Tokens),
		len(cfg.PillarConfig.Pillars), len(cfg.PillarConfig.Delegations), len(cfg.PillarConfig.LegacyEntries),
		len(cfg.PlasmaConfig.Fusions), len(cfg.SwapConfig.Entries), sp)
}

// big is the size part of the non-trivial rule.
func bigEnough(cfg *genesis.GenesisConfig) bool {
	return len(cfg.TokenConfig.Tokens) >= 3 && len(cfg.GenesisBlocks.Blocks) >= 4 && len(cfg.PlasmaConfig.Fusions) >= 2
}

// ---- building -------------------------------------------------------------------------------

type built struct {
	hash   types.Hash
	mbytes []byte // serialized genesis momentum
	panicv interface{}
}

func (b built) String() string {
	if b.panicv != nil {
		return fmt.Sprintf("panic(%v)", b.panicv)
	}
	s := sha256.Sum256(b.mbytes)
	return fmt.Sprintf("hash=%v momentum-bytes=%s", b.hash, hex.EncodeToString(s[:8]))
}

// construct runs genesis.NewGenesis and returns the observable identity of the genesis momentum.
func construct(cfg *genesis.GenesisConfig) (out built) {
	defer func() {
		if p := recover(); p != nil {
			out.panicv = p
		}
	}()
	g := genesis.NewGenesis(cfg)
	m := g.GetGenesisMomentum()
	data, err := m.Serialize()
	if err != nil {
		panic(err)
	}
	return built{hash: m.Hash, mbytes: data}
}

// node is a started chain on a leveldb directory.
type node struct {
	dir string
	mgr db.Manager
	ch  chain.Chain
}

func (n *node) stop()        { _ = n.ch.Stop() }
func (n *node) dump() string { return db.DebugDB(n.mgr.Frontier()) }

// start opens dir and runs chain.Init with a fresh genesis object of cfg (inserting the genesis
// momentum consumes the object's patch). On an Init error the manager is stopped.
func start(dir string, cfg *genesis.GenesisConfig) (n *node, err error) {
	g := genesis.NewGenesis(cfg)
	mgr := db.NewLevelDBManager(dir)
	ch := chain.NewChain(mgr, g)
	if err := ch.Init(); err != nil {
		_ = mgr.Stop()
		return nil, err
	}
	return &node{dir: dir, mgr: mgr, ch: ch}, nil
}

func tempDir(c *pbt.C) string {
	d, err := os.MkdirTemp("", "c20-")
	if err != nil {
		panic(err)
	}
	c.Cleanup(func() { _ = os.RemoveAll(d) })
	return d
}

// initDump starts cfg on a fresh directory and returns the logical dump of the frontier store
// and the serialized momentum stored at height 1.
func initDump(dir string, cfg *genesis.GenesisConfig) (dump string, stored []byte, err error) {
	n, err := start(dir, cfg)
	if err != nil {
		return "", nil, err
	}
	defer n.stop()
	m, err := n.ch.GetFrontierMomentumStore().GetMomentumByHeight(1)
	if err != nil {
		return "", nil, err
	}
	stored, err = m.Serialize()
	if err != nil {
		return "", nil, err
	}
	return n.dump(), stored, nil
}

// rawDump iterates the whole leveldb key space of a stopped database (logical content: every
// live key with its value; not the files).
func rawDump(dir string) string {
	ldb, err := leveldb.OpenFile(dir, &opt.Options{ErrorIfMissing: true})
	if err != nil {
		panic(err)
	}
	defer ldb.Close()
	it := ldb.NewIterator(nil, nil)
	defer it.Release()
	var sb strings.Builder
	for it.Next() {
		sb.WriteString(hex.EncodeToString(it.Key()))
		sb.WriteString(" - ")
		sb.WriteString(hex.EncodeToString(it.Value()))
		sb.WriteByte('\n')
	}
	if err := it.Error(); err != nil {
		panic(err)
	}
	return sb.String()
}

func shortSum(s string) string {
	h := sha256.Sum256([]byte(s))
	return hex.EncodeToString(h[:8])
}

// firstDiff names the first differing line of two dumps.
func firstDiff(a, b string) string {
	la, lb := strings.Split(a, "\n"), strings.Split(b, "\n")
	for i := 0; i < len(la) || i < len(lb); i++ {
		var x, y string
		if i < len(la) {
			x = la[i]
		}
		if i < len(lb) {
			y = lb[i]
		}
		if x != y {
			if len(x) > 160 {
				x = x[:160] + "..."
			}
			if len(y) > 160 {
				y = y[:160] + "..."
			}
			return fmt.Sprintf("line %d of %d/%d: %q vs %q", i, len(la), len(lb), x, y)
		}
	}
	return "identical"
}
