package sim

import (
	"fmt"
	"math/big"
	"sort"

	"github.com/zenon-network/go-zenon/chain/nom"
	"github.com/zenon-network/go-zenon/common/types"
	"github.com/zenon-network/go-zenon/vm/embedded/definition"
)

// Ledger is rebuilt from the raw key space and the account chains alone; it never uses the
// node's derived indices (mailboxes, sequencers, receive markers).
type Ledger struct {
	Accounts  []types.Address
	Blocks    map[types.Address][]*nom.AccountBlock // by height, confirmed then pooled
	Confirmed map[types.Address]uint64              // confirmed height per account
	Balances  map[types.Address]map[types.ZenonTokenStandard]*big.Int
	Sends     map[types.Hash]*nom.AccountBlock
	Recv      map[types.Hash][]*nom.AccountBlock // send hash -> receiving blocks
	Pooled    map[types.Hash]bool
}

// AccountsOf lists every address that has an account store in the frontier or a pooled block.
func AccountsOf(n *Node) []types.Address {
	set := map[types.Address]bool{}
	it := n.Mgr.Frontier().NewIterator([]byte{3})
	for it.Next() {
		if it.Value() == nil {
			continue
		}
		k := it.Key()
		if len(k) < 21 {
			continue
		}
		a, err := types.BytesToAddress(k[1:21])
		if err != nil {
			panic(err)
		}
		set[a] = true
	}
	it.Release()
	for _, b := range n.Chain.GetAllUncommittedAccountBlocks() {
		set[b.Address] = true
	}
	l := make([]types.Address, 0, len(set))
	for a := range set {
		l = append(l, a)
	}
	sort.Slice(l, func(i, j int) bool { return l[i].String() < l[j].String() })
	return l
}

// Scan walks every account chain (confirmed and pooled part).
func Scan(n *Node) (*Ledger, error) {
	l := &Ledger{Blocks: map[types.Address][]*nom.AccountBlock{}, Confirmed: map[types.Address]uint64{},
		Balances: map[types.Address]map[types.ZenonTokenStandard]*big.Int{}, Sends: map[types.Hash]*nom.AccountBlock{},
		Recv: map[types.Hash][]*nom.AccountBlock{}, Pooled: map[types.Hash]bool{}}
	l.Accounts = AccountsOf(n)
	ms := n.Chain.GetFrontierMomentumStore()
	for _, a := range l.Accounts {
		confirmed := ms.GetAccountStore(a).Identifier().Height
		l.Confirmed[a] = confirmed
		st := n.Chain.GetFrontierAccountStore(a)
		bm, err := st.GetBalanceMap()
		if err != nil {
			return nil, err
		}
		l.Balances[a] = bm
		h := st.Identifier().Height
		var prev *nom.AccountBlock
		for i := uint64(1); i <= h; i++ {
			b, err := st.ByHeight(i)
			if err != nil || b == nil {
				return nil, fmt.Errorf("account %v: missing block at height %d of %d: %v", a, i, h, err)
			}
			if b.Height != i || b.Address != a {
				return nil, fmt.Errorf("account %v height %d holds block %v/%d", a, i, b.Address, b.Height)
			}
			if prev != nil && b.PreviousHash != prev.Hash {
				return nil, fmt.Errorf("account %v height %d does not link to its predecessor", a, i)
			}
			prev = b
			l.Blocks[a] = append(l.Blocks[a], b)
			if i > confirmed {
				l.Pooled[b.Hash] = true
			}
			if b.IsSendBlock() {
				l.Sends[b.Hash] = b
			} else if b.BlockType != nom.BlockTypeGenesisReceive {
				l.Recv[b.FromBlockHash] = append(l.Recv[b.FromBlockHash], b)
			}
		}
	}
	return l, nil
}

// InFlight returns the sends without any receiving block.
func (l *Ledger) InFlight() []*nom.AccountBlock {
	var out []*nom.AccountBlock
	for h, s := range l.Sends {
		if len(l.Recv[h]) == 0 {
			out = append(out, s)
		}
	}
	sort.Slice(out, func(i, j int) bool { return out[i].Hash.String() < out[j].Hash.String() })
	return out
}

// Tokens returns the token table of the token contract at the pool frontier.
func Tokens(n *Node) ([]*definition.TokenInfo, error) {
	return definition.GetTokenInfoList(n.Chain.GetFrontierAccountStore(types.TokenContract).Storage())
}

// SupplyReport is the outcome of the conservation identity for one token.
type SupplyReport struct {
	Token    types.ZenonTokenStandard
	Symbol   string
	Supply   *big.Int
	Max      *big.Int
	Balances *big.Int
	InFlight *big.Int
}

// CheckSupply evaluates C01's identity on the node's current pool frontier.
// It returns a description of the first discrepancy, or "".
func CheckSupply(n *Node) (string, []SupplyReport, *Ledger, error) {
	l, err := Scan(n)
	if err != nil {
		return "", nil, nil, err
	}
	sumBal := map[types.ZenonTokenStandard]*big.Int{}
	sumFly := map[types.ZenonTokenStandard]*big.Int{}
	add := func(m map[types.ZenonTokenStandard]*big.Int, z types.ZenonTokenStandard, v *big.Int) {
		if m[z] == nil {
			m[z] = new(big.Int)
		}
		m[z].Add(m[z], v)
	}
	for a, bm := range l.Balances {
		for z, v := range bm {
			if v.Sign() < 0 {
				return fmt.Sprintf("negative balance: account %v token %v = %v", a, z, v), nil, l, nil
			}
			add(sumBal, z, v)
		}
	}
	for h, rs := range l.Recv {
		if l.Sends[h] == nil {
			return fmt.Sprintf("receive %v of a send %v that is on no account chain", rs[0].Hash, h), nil, l, nil
		}
	}
	for _, s := range l.InFlight() {
		if s.Amount != nil && s.Amount.Sign() > 0 {
			add(sumFly, s.TokenStandard, s.Amount)
		}
	}
	tokens, err := Tokens(n)
	if err != nil {
		return "", nil, l, err
	}
	var reps []SupplyReport
	seen := map[types.ZenonTokenStandard]bool{}
	for _, ti := range tokens {
		seen[ti.TokenStandard] = true
		b, f := sumBal[ti.TokenStandard], sumFly[ti.TokenStandard]
		if b == nil {
			b = new(big.Int)
		}
		if f == nil {
			f = new(big.Int)
		}
		reps = append(reps, SupplyReport{ti.TokenStandard, ti.TokenSymbol, ti.TotalSupply, ti.MaxSupply, b, f})
		total := new(big.Int).Add(b, f)
		if total.Cmp(ti.TotalSupply) != 0 {
			return fmt.Sprintf("token %s (%v): recorded supply %v, balances %v + in-flight %v = %v (difference %v)", ti.TokenSymbol,
				ti.TokenStandard, ti.TotalSupply, b, f, total, new(big.Int).Sub(total, ti.TotalSupply)), reps, l, nil
		}
		if ti.TotalSupply.Cmp(ti.MaxSupply) > 0 {
			return fmt.Sprintf("token %s: supply %v exceeds max supply %v", ti.TokenSymbol, ti.TotalSupply, ti.MaxSupply), reps, l, nil
		}
	}
	for z, v := range sumBal {
		if !seen[z] && v.Sign() != 0 {
			return fmt.Sprintf("balances of %v in a token the token contract does not know: %v", v, z), reps, l, nil
		}
	}
	for z, v := range sumFly {
		if !seen[z] && v.Sign() != 0 {
			return fmt.Sprintf("in-flight amount %v of a token the token contract does not know: %v", v, z), reps, l, nil
		}
	}
	return "", reps, l, nil
}
