package sim

// EcosystemScript brings a world into a state that random walks reach rarely: a registered sentinel and a
// second-generation pillar (QSR deposited first), a stake, an accelerator project accepted by the pillars'
// votes with a phase under vote, and funds donated to the accelerator. Every call goes through Hist.Submit
// (same acceptance accounting as any other action); a refused call is noted and the script goes on, so the
// script is sound in any spork regime.

import (
	"fmt"
	"math/big"

	"github.com/zenon-network/go-zenon/chain/nom"
	"github.com/zenon-network/go-zenon/common/crypto"
	"github.com/zenon-network/go-zenon/common/types"
	"github.com/zenon-network/go-zenon/vm/constants"
	"github.com/zenon-network/go-zenon/vm/embedded/definition"
)

// EcosystemScript returns the number of script calls the node accepted and an error if the producer stopped.
func EcosystemScript(h *Hist) (int, error) {
	c := h.C
	ok := 0
	submit := func(from, to types.Address, z types.ZenonTokenStandard, amt *big.Int, data []byte, descr string) *nom.AccountBlock {
		b, err := h.Submit(&nom.AccountBlock{Address: from, ToAddress: to, TokenStandard: z, Amount: amt, Data: data}, "script "+descr)
		if err != nil || b == nil {
			return nil
		}
		ok++
		return b
	}
	produce := func(n int) error {
		for i := 0; i < n; i++ {
			if !h.Produce(0) {
				return fmt.Errorf("ecosystem script: producer stopped")
			}
		}
		return nil
	}
	nu := len(h.W.Spec.Users)
	u := func(i int) types.Address { return UserKey(i % nu).Address }
	for h.A.Height() < 3 {
		if err := produce(1); err != nil {
			return ok, err
		}
	}
	sentinelOwner, pillarOwner, projOwner := u(c.Int("eco.sentinel", 0, nu-1)), u(c.Int("eco.pillar", 0, nu-1)), u(c.Int("eco.project", 0, nu-1))
	zero := big.NewInt(0)

	// 1. deposits, a stake, a project, a donation
	submit(sentinelOwner, types.SentinelContract, types.QsrTokenStandard, new(big.Int).Set(constants.SentinelQsrDepositAmount),
		definition.ABICommon.PackMethodPanic(definition.DepositQsrMethodName), "sentinel.DepositQsr")
	submit(pillarOwner, types.PillarContract, types.QsrTokenStandard, h.pillarCost(),
		definition.ABICommon.PackMethodPanic(definition.DepositQsrMethodName), "pillar.DepositQsr")
	submit(u(c.Int("eco.staker", 0, nu-1)), types.StakeContract, types.ZnnTokenStandard, zq(int64(c.Int("eco.stake", 1, 500))),
		definition.ABIStake.PackMethodPanic(definition.StakeMethodName, int64(c.Int("eco.stakeUnits", 1, 3))*constants.StakeTimeUnitSec), "stake.Stake")
	var project *nom.AccountBlock
	if h.Balance(projOwner, types.ZnnTokenStandard).Cmp(constants.ProjectCreationAmount) >= 0 {
		project = submit(projOwner, types.AcceleratorContract, types.ZnnTokenStandard, new(big.Int).Set(constants.ProjectCreationAmount),
			definition.ABIAccelerator.PackMethodPanic(definition.CreateProjectMethodName, "script-project", "a verif project", "www.verif.test",
				zq(int64(c.Int("eco.projZnn", 1, 4000))), zq(int64(c.Int("eco.projQsr", 0, 40000)))), "accelerator.CreateProject")
		if project != nil {
			h.Projects = append(h.Projects, project.Hash)
		}
	}
	donor := u(c.Int("eco.donor", 0, nu-1))
	submit(donor, types.AcceleratorContract, types.ZnnTokenStandard, zq(int64(c.Int("eco.donZnn", 1, 3000))),
		definition.ABICommon.PackMethodPanic(definition.DonateMethodName), "accelerator.Donate znn")
	submit(donor, types.AcceleratorContract, types.QsrTokenStandard, zq(int64(c.Int("eco.donQsr", 1, 30000))),
		definition.ABICommon.PackMethodPanic(definition.DonateMethodName), "accelerator.Donate qsr")
	// a hash-time-locked deposit whose beneficiary is drawn from users AND contracts, unlocked below with the preimage
	htlcPre := c.Bytes("eco.htlcPre", 1, 32)
	htlcLocked := h.Pools.Addrs[c.Pick("eco.htlcLocked", len(h.Pools.Addrs))]
	htlc := submit(u(c.Int("eco.htlcFrom", 0, nu-1)), types.HtlcContract, types.ZnnTokenStandard, zq(int64(c.Int("eco.htlcAmt", 1, 50))),
		definition.ABIHtlc.PackMethodPanic(definition.CreateHtlcMethodName, htlcLocked, h.A.Frontier().Timestamp.Unix()+3600, uint8(definition.HashTypeSHA3), uint8(32), crypto.Hash(htlcPre)),
		"htlc.Create locked="+short(htlcLocked))
	if htlc != nil {
		h.Htlcs = append(h.Htlcs, HtlcSecret{Id: htlc.Hash, Preimage: htlcPre, Creator: htlc.Address, Locked: htlcLocked})
	}
	if err := produce(2); err != nil {
		return ok, err
	}
	if htlc != nil && c.Weighted("eco.htlcUnlock", 1, 3) == 1 {
		by := htlcLocked
		if h.W.Keys.ByAddr[by] == nil {
			by = u(c.Int("eco.htlcBy", 0, nu-1)) // proxy unlock (allowed unless the beneficiary denied it)
		}
		submit(by, types.HtlcContract, types.ZnnTokenStandard, zero, definition.ABIHtlc.PackMethodPanic(definition.UnlockHtlcMethodName, htlc.Hash, htlcPre), "htlc.Unlock")
	}

	// 2. registrations; every genesis pillar votes for the project
	submit(sentinelOwner, types.SentinelContract, types.ZnnTokenStandard, new(big.Int).Set(constants.SentinelZnnRegisterAmount),
		definition.ABISentinel.PackMethodPanic(definition.RegisterSentinelMethodName), "sentinel.Register")
	prod := ExtraKey(c.Int("eco.producer", 0, 2)).Address
	submit(pillarOwner, types.PillarContract, types.ZnnTokenStandard, new(big.Int).Set(constants.PillarStakeAmount),
		definition.ABIPillars.PackMethodPanic(definition.RegisterMethodName, "VP-script", prod, u(c.Int("eco.reward", 0, nu-1)),
			uint8(c.Int("eco.give1", 0, 100)), uint8(c.Int("eco.give2", 0, 100))), "pillar.Register VP-script")
	vote := func(id types.Hash, what string) {
		for _, ps := range h.W.Spec.Pillars {
			v := definition.VoteYes
			if c.Weighted("eco.vote", 5, 1) == 1 {
				v = uint8(c.Int("eco.voteOther", 1, 2))
			}
			submit(PillarKey(ps.Key).Address, types.AcceleratorContract, types.ZnnTokenStandard, zero,
				definition.ABICommon.PackMethodPanic(definition.VoteByNameMethodName, id, ps.Name, v), "accelerator.VoteByName "+what+" "+ps.Name)
		}
	}
	if project != nil {
		vote(project.Hash, "project")
	}
	if err := produce(2); err != nil {
		return ok, err
	}
	// 3. the accelerator's periodic update evaluates the votes
	if err := produce(int(constants.UpdateMinNumMomentums) + 1); err != nil {
		return ok, err
	}
	if project == nil {
		return ok, nil
	}
	// 4. a phase, voted as well; the next updates pay it
	phase := submit(projOwner, types.AcceleratorContract, types.ZnnTokenStandard, zero,
		definition.ABIAccelerator.PackMethodPanic(definition.AddPhaseMethodName, project.Hash, "script-phase", "a verif phase", "www.verif.test",
			zq(int64(c.Int("eco.phaseZnn", 0, 2000))), zq(int64(c.Int("eco.phaseQsr", 0, 20000)))), "accelerator.AddPhase")
	if err := produce(2); err != nil {
		return ok, err
	}
	if phase != nil && c.Weighted("eco.updatePhase", 3, 1) == 1 {
		// the owner replaces the phase while it is under vote
		phase = submit(projOwner, types.AcceleratorContract, types.ZnnTokenStandard, zero,
			definition.ABIAccelerator.PackMethodPanic(definition.UpdatePhaseMethodName, project.Hash, "script-phase-2", "a verif phase, updated", "www.verif.test",
				zq(int64(c.Int("eco.phase2Znn", 0, 2000))), zq(int64(c.Int("eco.phase2Qsr", 0, 20000)))), "accelerator.UpdatePhase")
		if err := produce(2); err != nil {
			return ok, err
		}
	}
	if phase != nil && c.Bool("eco.votePhase") {
		vote(phase.Hash, "phase")
		if err := produce(2); err != nil {
			return ok, err
		}
	}
	return ok, nil
}
