package sim

import (
	"fmt"
	ecrypto "github.com/ethereum/go-ethereum/crypto"
	"math/big"
	"sort"

	"github.com/zenon-network/go-zenon/chain/genesis"
	"github.com/zenon-network/go-zenon/common/types"
	"github.com/zenon-network/go-zenon/vm/constants"
	"github.com/zenon-network/go-zenon/vm/embedded/definition"
	"github.com/zenon-network/go-zenon/vm/embedded/implementation"
)

const (
	GenesisTimestamp = 1000000000
	Zexp             = 100000000
)

// Spec is a compact, constructively consistent description of a genesis configuration.
type Spec struct {
	ChainID    uint64
	Timestamp  int64
	Extra      string
	Pillars    []PillarSpec
	Users      []UserSpec // index i uses UserKey(i)
	Fusions    []FusionSpec
	Delegs     []DelegSpec
	Tokens     []TokenSpec // beyond ZNN and QSR
	Sporks     []*definition.Spork
	NoSporkCfg bool
	// ActiveSporks declares the three implemented sporks as activated with this enforcement
	// height (0 = not declared).
	ActiveSporks uint64
	// Swap: assets and pillar slots of the legacy network, claimable with a secp256k1 key (SwapKey(i))
	Swap []SwapSpec
}

// SwapSpec is one legacy key: what it can retrieve (units of Zexp) and how many legacy pillars it may register.
type SwapSpec struct {
	Key      int
	Znn, Qsr int64
	Pillars  uint8
}

type PillarSpec struct {
	Name   string
	Key    int // PillarKey index
	Amount *big.Int
	Znn    int64 // own balance (units of Zexp)
	Qsr    int64
	Reward *types.Address // reward-withdraw address if it differs from the owner
}
type UserSpec struct {
	Znn, Qsr int64         // units of Zexp
	Extra    map[int]int64 // token index -> raw amount
}
type FusionSpec struct {
	Owner       types.Address
	Beneficiary types.Address
	Amount      int64 // units of Zexp
	Id          types.Hash
}
type DelegSpec struct {
	Backer types.Address
	Pillar string
}
type TokenSpec struct {
	Zts      types.ZenonTokenStandard
	Owner    types.Address
	Name     string
	Symbol   string
	Max      *big.Int
	Mintable bool
	Burnable bool
}

// DefaultSpec: nPillars genesis pillars, nUsers funded users, every user and pillar has fused QSR.
func DefaultSpec(nPillars, nUsers int) *Spec {
	s := &Spec{ChainID: 100, Timestamp: GenesisTimestamp, Extra: "verif harness genesis"}
	for i := 0; i < nPillars; i++ {
		s.Pillars = append(s.Pillars, PillarSpec{Name: fmt.Sprintf("VP-pillar-%02d", i), Key: i,
			Amount: new(big.Int).Set(constants.PillarStakeAmount), Znn: 16000, Qsr: 200000})
	}
	for i := 0; i < nUsers; i++ {
		s.Users = append(s.Users, UserSpec{Znn: int64(20000 - 1500*(i%8)), Qsr: int64(500000 - 30000*(i%8))})
	}
	fid := 0
	for i := 0; i < nPillars; i++ {
		fid++
		s.Fusions = append(s.Fusions, FusionSpec{Owner: UserKey(0).Address, Beneficiary: PillarKey(i).Address, Amount: 10000,
			Id: types.NewHash([]byte(fmt.Sprintf("genesis-fusion-%d", fid)))})
		s.Delegs = append(s.Delegs, DelegSpec{Backer: PillarKey(i).Address, Pillar: s.Pillars[i].Name})
	}
	for i := 0; i < nUsers; i++ {
		fid++
		s.Fusions = append(s.Fusions, FusionSpec{Owner: UserKey(i).Address, Beneficiary: UserKey(i).Address, Amount: 10000,
			Id: types.NewHash([]byte(fmt.Sprintf("genesis-fusion-%d", fid)))})
		if nPillars > 0 && i%2 == 0 {
			s.Delegs = append(s.Delegs, DelegSpec{Backer: UserKey(i).Address, Pillar: s.Pillars[i%nPillars].Name})
		}
	}
	fid++
	s.Fusions = append(s.Fusions, FusionSpec{Owner: UserKey(0).Address, Beneficiary: SporkKey().Address, Amount: 10000,
		Id: types.NewHash([]byte(fmt.Sprintf("genesis-fusion-%d", fid)))})
	return s
}

// Config materialises the spec; balances of contracts and token supplies are derived so that
// the configuration is consistent by construction.
func (s *Spec) Config() *genesis.GenesisConfig {
	spork := SporkKey().Address
	cfg := &genesis.GenesisConfig{
		ChainIdentifier:     s.ChainID,
		ExtraData:           s.Extra,
		GenesisTimestampSec: s.Timestamp,
		SporkAddress:        &spork,
		PillarConfig:        &genesis.PillarContractConfig{},
		TokenConfig:         &genesis.TokenContractConfig{},
		PlasmaConfig:        &genesis.PlasmaContractConfig{},
		SwapConfig:          &genesis.SwapContractConfig{},
		GenesisBlocks:       &genesis.GenesisBlocksConfig{},
	}
	if !s.NoSporkCfg {
		sporks := append([]*definition.Spork{}, s.Sporks...)
		if s.ActiveSporks > 0 {
			for i, sp := range []*types.ImplementedSpork{types.AcceleratorSpork, types.HtlcSpork, types.BridgeAndLiquiditySpork} {
				sporks = append(sporks, &definition.Spork{Id: sp.SporkId, Name: fmt.Sprintf("spork-%d", i), Description: "declared at genesis",
					Activated: true, EnforcementHeight: s.ActiveSporks})
			}
		}
		cfg.SporkConfig = &genesis.SporkConfig{Sporks: sporks}
	}
	bal := map[types.Address]map[types.ZenonTokenStandard]*big.Int{}
	add := func(a types.Address, z types.ZenonTokenStandard, v *big.Int) {
		if v.Sign() == 0 {
			return
		}
		if bal[a] == nil {
			bal[a] = map[types.ZenonTokenStandard]*big.Int{}
		}
		if bal[a][z] == nil {
			bal[a][z] = new(big.Int)
		}
		bal[a][z].Add(bal[a][z], v)
	}
	z := func(v int64) *big.Int { return new(big.Int).Mul(big.NewInt(v), big.NewInt(Zexp)) }
	for _, p := range s.Pillars {
		addr := PillarKey(p.Key).Address
		reward := addr
		if p.Reward != nil {
			reward = *p.Reward
		}
		cfg.PillarConfig.Pillars = append(cfg.PillarConfig.Pillars, &definition.PillarInfo{
			Name: p.Name, BlockProducingAddress: addr, StakeAddress: addr, RewardWithdrawAddress: reward,
			Amount: new(big.Int).Set(p.Amount), RegistrationTime: s.Timestamp, GiveBlockRewardPercentage: 0,
			GiveDelegateRewardPercentage: 100, PillarType: definition.LegacyPillarType})
		add(types.PillarContract, types.ZnnTokenStandard, p.Amount)
		add(addr, types.ZnnTokenStandard, z(p.Znn))
		add(addr, types.QsrTokenStandard, z(p.Qsr))
	}
	for _, sw := range s.Swap {
		_, pub := SwapKey(sw.Key)
		kih := implementation.PubKeyToKeyIdHash(pub)
		cfg.SwapConfig.Entries = append(cfg.SwapConfig.Entries, &definition.SwapAssets{KeyIdHash: kih, Znn: z(sw.Znn), Qsr: z(sw.Qsr)})
		if sw.Pillars > 0 {
			cfg.PillarConfig.LegacyEntries = append(cfg.PillarConfig.LegacyEntries, &definition.LegacyPillarEntry{KeyIdHash: kih, PillarCount: sw.Pillars})
		}
	}
	for _, d := range s.Delegs {
		cfg.PillarConfig.Delegations = append(cfg.PillarConfig.Delegations, &definition.DelegationInfo{Name: d.Pillar, Backer: d.Backer})
	}
	for i, u := range s.Users {
		addr := UserKey(i).Address
		add(addr, types.ZnnTokenStandard, z(u.Znn))
		add(addr, types.QsrTokenStandard, z(u.Qsr))
		for ti, amt := range u.Extra {
			add(addr, s.Tokens[ti].Zts, big.NewInt(amt))
		}
	}
	for _, f := range s.Fusions {
		cfg.PlasmaConfig.Fusions = append(cfg.PlasmaConfig.Fusions, &definition.FusionInfo{Owner: f.Owner, Id: f.Id,
			Amount: z(f.Amount), ExpirationHeight: 0, Beneficiary: f.Beneficiary})
		add(types.PlasmaContract, types.QsrTokenStandard, z(f.Amount))
	}
	supply := map[types.ZenonTokenStandard]*big.Int{}
	for _, m := range bal {
		for zts, v := range m {
			if supply[zts] == nil {
				supply[zts] = new(big.Int)
			}
			supply[zts].Add(supply[zts], v)
		}
	}
	get := func(zts types.ZenonTokenStandard) *big.Int {
		if supply[zts] == nil {
			return new(big.Int)
		}
		return supply[zts]
	}
	max := big.NewInt(4611686018427387903)
	cfg.TokenConfig.Tokens = append(cfg.TokenConfig.Tokens,
		&definition.TokenInfo{Owner: types.PillarContract, TokenName: "Zenon Coin", TokenSymbol: "ZNN", TokenDomain: "zenon.network",
			TotalSupply: get(types.ZnnTokenStandard), MaxSupply: new(big.Int).Set(max), Decimals: 8, IsMintable: true, IsBurnable: true,
			IsUtility: true, TokenStandard: types.ZnnTokenStandard},
		&definition.TokenInfo{Owner: types.StakeContract, TokenName: "QuasarCoin", TokenSymbol: "QSR", TokenDomain: "zenon.network",
			TotalSupply: get(types.QsrTokenStandard), MaxSupply: new(big.Int).Set(max), Decimals: 8, IsMintable: true, IsBurnable: true,
			IsUtility: true, TokenStandard: types.QsrTokenStandard})
	for _, t := range s.Tokens {
		cfg.TokenConfig.Tokens = append(cfg.TokenConfig.Tokens, &definition.TokenInfo{Owner: t.Owner, TokenName: t.Name,
			TokenSymbol: t.Symbol, TokenDomain: "verif.test", TotalSupply: get(t.Zts), MaxSupply: new(big.Int).Set(t.Max), Decimals: 2,
			IsMintable: t.Mintable, IsBurnable: t.Burnable, IsUtility: false, TokenStandard: t.Zts})
	}
	addrs := make([]types.Address, 0, len(bal))
	for a := range bal {
		addrs = append(addrs, a)
	}
	sort.Slice(addrs, func(i, j int) bool { return addrs[i].String() < addrs[j].String() })
	for _, a := range addrs {
		cfg.GenesisBlocks.Blocks = append(cfg.GenesisBlocks.Blocks, &genesis.GenesisBlockConfig{Address: a, BalanceList: bal[a]})
	}
	return cfg
}

// SwapKey returns the i-th legacy (secp256k1) key of the harness: private key bytes and the 65-byte public key.
func SwapKey(i int) (prv, pub []byte) {
	prv = []byte(fmt.Sprintf("verif-legacy-swap-key-%09d!", i))
	k, err := ecrypto.ToECDSA(prv)
	if err != nil {
		panic(err)
	}
	return prv, ecrypto.FromECDSAPub(&k.PublicKey)
}
