package sim

import (
	"errors"
	"fmt"
	"math/big"
	"runtime"
	"runtime/debug"
	"sort"

	"github.com/zenon-network/go-zenon/chain/nom"
	"github.com/zenon-network/go-zenon/common/types"
	"github.com/zenon-network/go-zenon/vm/embedded/definition"

	"verifharness/pbt"
)

// PreflightFailure describes an inbox head whose receive cannot be generated.
type PreflightFailure struct {
	Contract types.Address
	Send     *nom.AccountBlock
	Panic    interface{}
	Stack    string
	Err      error
}

func (p *PreflightFailure) String() string {
	what := fmt.Sprintf("internal error: %v", p.Err)
	if p.Panic != nil {
		what = fmt.Sprintf("panic: %v", p.Panic)
	}
	return fmt.Sprintf("receive of send %v (from %v to %s, amount %v %v, data 0x%x) cannot be generated: %s", p.Send.Hash, p.Send.Address,
		ContractNames[p.Contract], p.Send.Amount, p.Send.TokenStandard, p.Send.Data, what)
}

// InboxHead returns the send block at the head of a contract's inbox (nil if empty).
func (n *Node) InboxHead(contract types.Address) *nom.AccountBlock {
	ms := n.Chain.GetFrontierMomentumStore()
	st := n.Chain.GetFrontierAccountStore(contract)
	front := st.SequencerFront(ms.GetAccountMailbox(contract))
	if front == nil {
		return nil
	}
	sb, err := ms.GetAccountBlock(*front)
	if err != nil || sb == nil {
		return nil
	}
	return sb
}

// InboxLen is the number of confirmed, not yet received sends queued for the contract
// (pool receives included).
func (n *Node) InboxLen(contract types.Address) int {
	l, err := Scan(n)
	if err != nil {
		return -1
	}
	cnt := 0
	for h, s := range l.Sends {
		if s.ToAddress == contract && len(l.Recv[h]) == 0 && !l.Pooled[h] {
			cnt++
		}
	}
	return cnt
}

// PreflightHead generates the receive of the contract's inbox head under recover.
func (n *Node) PreflightHead(contract types.Address) (pf *PreflightFailure) {
	sb := n.InboxHead(contract)
	if sb == nil {
		return nil
	}
	defer func() {
		if r := recover(); r != nil {
			pf = &PreflightFailure{Contract: contract, Send: sb, Panic: r, Stack: string(debug.Stack())}
		}
	}()
	ex, err := n.Sup.GenerateAutoReceive(sb)
	if err != nil {
		return &PreflightFailure{Contract: contract, Send: sb, Err: err}
	}
	if ex == nil || ex.Transaction == nil {
		return &PreflightFailure{Contract: contract, Send: sb, Err: fmt.Errorf("no transaction returned")}
	}
	if n.MethodErrs == nil {
		n.MethodErrs = map[types.Hash]error{}
	}
	n.MethodErrs[sb.Hash] = ex.ReturnedError
	return nil
}

// preflightAll is called from the broadcaster callbacks on the pillar's goroutine.
func (n *Node) preflightAll() {
	if !n.PreflightOn || n.Preflight != nil {
		return
	}
	for _, a := range types.EmbeddedContracts {
		if pf := n.PreflightHead(a); pf != nil {
			n.Preflight = pf
			if pf.Panic != nil {
				// letting the worker go on would kill the process: end its goroutine here
				close(n.abort)
				runtime.Goexit()
			}
			return
		}
	}
}

// Hist drives a generated history on one producing node.
type Hist struct {
	C     *pbt.C
	W     *World
	A     *Node
	Users []types.Address // accounts with keys
	Pools *Pools

	Sends     []*nom.AccountBlock // accepted user sends (oldest first)
	Calls     []*nom.AccountBlock // accepted sends to embedded contracts
	Rejected  int
	Accepted  int
	Momentums int
	Dead      bool // the producer is wedged (preflight found a crash): stop using this world

	// per-case statistics the properties use for non-triviality
	Refunds   int
	Received  int
	MethodsOK map[string]int

	// AckDepthMax > 0: blocks sometimes acknowledge a momentum up to this many heights behind
	AckDepthMax int
	// Focus: contracts that ActCallABI addresses half of the time (e.g. the ones a script has just configured)
	Focus []types.Address
	// Recode > 0: one call in Recode to an embedded contract (whoever built it: intents, scripts, the ABI layer) is
	// re-encoded non-canonically just before it is sent (same selector, same meaning where it still decodes)
	Recode      int
	AckBehind   int
	AckBehindOK int
	// RecodeExternal > 0: one call in RecodeExternal is built outside the node (see sendExternallyRecoded);
	// ExternalDelivered keeps the delivered bytes
	RecodeExternal    int
	ExternalDelivered []*nom.AccountBlock
	lastRoute         string

	// ExtraSporkKey: a second key that may create / activate sporks in this world (the community spork address)
	ExtraSporkKey types.Address

	revokesAt []uint64
	Unwraps   []UnwrapRecord
	Htlcs     []HtlcSecret
	Projects  []types.Hash

	OnAccepted func(b *nom.AccountBlock, descr string)
	OnMomentum func()
	Intents    []Intent
}

// Intent is a model-guided call that is valid in the current state when Ready returns true.
type Intent struct {
	Name string
	Try  func(h *Hist) bool // performs the call if possible; false if not applicable now
}

// NewHist creates a world with one producing node.
func NewHist(c *pbt.C, spec *Spec, o WorldOpts) *Hist {
	w := NewWorld(spec, o)
	c.Cleanup(w.Close)
	for i := 0; i < 3; i++ {
		w.Keys.Add(ExtraKey(i))
	}
	a := w.AddNode("A", true)
	a.PreflightOn = true
	h := &Hist{C: c, W: w, A: a, MethodsOK: map[string]int{}}
	for _, k := range w.Keys.Users {
		h.Users = append(h.Users, k.Address)
	}
	for _, k := range w.Keys.Pillars {
		h.Users = append(h.Users, k.Address)
	}
	h.Users = append(h.Users, w.Keys.Spork.Address)
	for i := 0; i < 3; i++ {
		h.Users = append(h.Users, ExtraKey(i).Address)
	}
	h.RefreshPools()
	return h
}

// NewHistOn drives another producing node of an existing world (competing branches).
func NewHistOn(c *pbt.C, w *World, a *Node, like *Hist) *Hist {
	a.PreflightOn = true
	h := &Hist{C: c, W: w, A: a, MethodsOK: map[string]int{}, Users: like.Users, Intents: like.Intents, AckDepthMax: like.AckDepthMax, Focus: like.Focus, Recode: like.Recode}
	h.Sends = append(h.Sends, like.Sends...)
	h.Htlcs = append(h.Htlcs, like.Htlcs...)
	h.Projects = append(h.Projects, like.Projects...)
	h.RefreshPools()
	return h
}

// RefreshPools recomputes the value pools from the world.
func (h *Hist) RefreshPools() {
	p := &Pools{}
	p.Addrs = append(p.Addrs, h.Users...)
	p.Addrs = append(p.Addrs, ContractList...)
	p.Addrs = append(p.Addrs, types.ZeroAddress)
	for _, s := range h.Sends {
		p.Hashes = append(p.Hashes, s.Hash)
	}
	if len(p.Hashes) > 24 {
		p.Hashes = p.Hashes[len(p.Hashes)-24:]
	}
	p.Tokens = []types.ZenonTokenStandard{types.ZnnTokenStandard, types.QsrTokenStandard, types.ZeroTokenStandard}
	if toks, err := Tokens(h.A); err == nil {
		for _, t := range toks {
			if t.TokenStandard != types.ZnnTokenStandard && t.TokenStandard != types.QsrTokenStandard {
				p.Tokens = append(p.Tokens, t.TokenStandard)
			}
		}
	}
	for _, ps := range h.W.Spec.Pillars {
		p.Strings = append(p.Strings, ps.Name)
	}
	p.Strings = append(p.Strings, "verif-name", "VerifToken", "VRF", "verif.test", "a-b")
	h.Pools = p
}

func (h *Hist) user(label string) types.Address { return h.Users[h.C.Pick(label, len(h.Users))] }

// Balance at the pool frontier.
func (h *Hist) Balance(a types.Address, z types.ZenonTokenStandard) *big.Int {
	b, err := h.A.Chain.GetFrontierAccountStore(a).GetBalance(z)
	if err != nil || b == nil {
		return new(big.Int)
	}
	return b
}

// amountAround draws an amount from the boundary set around bal.
func (h *Hist) amountAround(label string, bal *big.Int) *big.Int {
	switch h.C.Weighted(label+".akind", 2, 2, 5, 1, 1, 1, 1) {
	case 0:
		return big.NewInt(0)
	case 1:
		return big.NewInt(1)
	case 2:
		if bal.Sign() > 0 {
			// a small share of the balance so that accounts are not drained at once
			d := int64(h.C.Int(label+".div", 2, 200))
			return new(big.Int).Div(bal, big.NewInt(d))
		}
		return big.NewInt(int64(h.C.Int(label+".small", 0, 1000)))
	case 3:
		return new(big.Int).Set(bal)
	case 4:
		return new(big.Int).Add(bal, big.NewInt(1))
	case 5:
		if bal.Sign() > 0 {
			return new(big.Int).Sub(bal, big.NewInt(1))
		}
		return big.NewInt(0)
	default:
		return new(big.Int).Set(bigBoundaries[h.C.Pick(label+".abig", len(bigBoundaries))])
	}
}

func (h *Hist) token(label string) types.ZenonTokenStandard {
	return h.Pools.Tokens[h.C.Pick(label, len(h.Pools.Tokens))]
}

// Submit sends a template through the real supervisor and records the outcome.
func (h *Hist) Submit(tpl *nom.AccountBlock, descr string) (*nom.AccountBlock, error) {
	h.C.Checkpoint()
	// with no active pillar left the node's election loops forever (nobody could produce anyway):
	// the last active pillar is never revoked by the harness
	if tpl.ToAddress == types.PillarContract && len(tpl.Data) >= 4 &&
		string(tpl.Data[:4]) == string(definition.ABIPillars.Methods[definition.RevokeMethodName].Id()) {
		st := h.A.Chain.GetFrontierAccountStore(types.PillarContract).Storage()
		pending := 0
		for _, ht := range h.revokesAt {
			if ht+3 >= h.A.Height() {
				pending++
			}
		}
		if list, err := definition.GetPillarsList(st, true, definition.AnyPillarType); err == nil && len(list)-pending <= 1 {
			h.C.Note("%s -> not sent (it would revoke the last active pillar)", descr)
			h.C.Excluded("revoke-of-last-active-pillar")
			return nil, fmt.Errorf("not sent")
		}
		h.revokesAt = append(h.revokesAt, h.A.Height())
	}
	if h.AckDepthMax > 0 && tpl.MomentumAcknowledged.IsZero() && h.C.Weighted("ack.behind", 3, 1) == 1 {
		depth := uint64(h.C.Int("ack.depth", 1, h.AckDepthMax))
		if fh := h.A.Height(); fh > depth {
			if m, err := h.A.Chain.GetFrontierMomentumStore().GetMomentumByHeight(fh - depth); err == nil && m != nil {
				tpl.MomentumAcknowledged = m.Identifier()
				descr += fmt.Sprintf(" [ack %d behind]", depth)
				h.AckBehind++
			}
		}
	}
	if h.Recode > 0 && types.IsEmbeddedAddress(tpl.ToAddress) && len(tpl.Data) >= 4 && h.C.Weighted("recode", h.Recode-1, 1) == 1 {
		tpl.Data = MutatePacking(h.C, tpl.Data)
		descr += " [call data re-encoded]"
	}
	var b *nom.AccountBlock
	var err error
	if h.RecodeExternal > 0 && types.IsEmbeddedAddress(tpl.ToAddress) && len(tpl.Data) >= 4 && tpl.BlockType != nom.BlockTypeUserReceive &&
		h.C.Weighted("recodeExternal", h.RecodeExternal-1, 1) == 1 {
		var done bool
		if b, err, done = h.sendExternallyRecoded(tpl); done {
			descr += " [built outside the node with re-encoded call data, delivered " + h.lastRoute + "]"
		} else {
			b, err = h.A.Send(tpl)
		}
	} else {
		b, err = h.A.Send(tpl)
	}
	if err != nil {
		h.Rejected++
		h.C.Note("%s -> rejected: %v", descr, err)
		return nil, err
	}
	h.Accepted++
	if b.MomentumAcknowledged.Height < h.A.Height() {
		h.AckBehindOK++
	}
	h.C.Note("%s -> accepted %s h=%d", descr, b.Hash.String()[:8], b.Height)
	if b.IsSendBlock() {
		h.Sends = append(h.Sends, b)
		if types.IsEmbeddedAddress(b.ToAddress) {
			h.Calls = append(h.Calls, b)
		}
	} else {
		h.Received++
	}
	if h.OnAccepted != nil {
		h.OnAccepted(b, descr)
	}
	return b, nil
}

// sendExternallyRecoded: what a wallet that packs call data its own way does - the block is completed by the node's
// own generator (plasma, heights, acknowledged momentum) but NOT inserted; its call data is then re-encoded
// non-canonically (same selector, same meaning where it still decodes), the block hashed and signed over THOSE bytes
// by the account's key, and delivered like any foreign block (peer wire format or the JSON-RPC publication call).
// done=false: nothing was delivered (template not valid, re-encoding equals the canonical form).
func (h *Hist) sendExternallyRecoded(tpl *nom.AccountBlock) (blk *nom.AccountBlock, err error, done bool) {
	kp := h.W.Keys.ByAddr[tpl.Address]
	if kp == nil {
		return nil, nil, false
	}
	if tpl.BlockType == 0 {
		tpl.BlockType = nom.BlockTypeUserSend
	}
	var tx *nom.AccountBlockTransaction
	func() {
		defer func() {
			if r := recover(); r != nil {
				err = fmt.Errorf("%v", r)
			}
		}()
		tx, err = h.A.Sup.GenerateFromTemplate(tpl.Copy(), kp.Signer)
	}()
	if err != nil || tx == nil {
		h.C.Class("externally-recoded-call: template not valid")
		return nil, nil, false
	}
	b := tx.Block.Copy()
	re := MutatePacking(h.C, b.Data)
	if string(re) == string(b.Data) {
		h.C.Class("externally-recoded-call: re-encoding equals the canonical form")
		return nil, nil, false
	}
	b.Data = re
	b.ChangesHash = types.ZeroHash
	ResignBlock(b, kp)
	var wire *nom.AccountBlock
	h.lastRoute = "over the wire"
	if h.C.Bool("recodeExternal.rpc") {
		h.lastRoute = "over JSON-RPC"
		if wire, err = ViaPublishJSON(h.A, b); err != nil {
			return nil, err, true
		}
	} else if wb, werr := WireBlocks([]*nom.AccountBlock{b}); werr == nil {
		wire = wb[0]
	} else {
		return nil, nil, false
	}
	h.ExternalDelivered = append(h.ExternalDelivered, b.Copy())
	h.C.Class("externally-recoded-call-delivered")
	ntx, aerr := h.A.Sup.ApplyBlock(wire)
	if aerr != nil {
		e := aerr.Error()
		if len(e) > 50 {
			e = e[:50]
		}
		h.C.Class("externally-recoded-call-refused: " + e)
		return nil, aerr, true
	}
	h.A.LastBlockErr = nil
	h.A.CreateAccountBlock(ntx)
	if h.A.LastBlockErr != nil {
		return nil, h.A.LastBlockErr, true
	}
	h.C.Class("externally-recoded-call-accepted")
	return ntx.Block.Copy(), nil, true
}

// ActTransfer: a plain transfer with generated parties, token, amount, data.
func (h *Hist) ActTransfer() {
	c := h.C
	from := h.user("tr.from")
	var to types.Address
	switch c.Weighted("tr.tokind", 6, 1, 1) {
	case 0:
		to = h.user("tr.to")
	case 1:
		to = ContractList[c.Pick("tr.contract", len(ContractList))]
	default:
		copy(to[:], c.Bytes("tr.fresh", 20, 20))
		to[0] = 0 // user address space
	}
	z := h.token("tr.token")
	amt := h.amountAround("tr.amt", h.Balance(from, z))
	var data []byte
	if c.Weighted("tr.data", 4, 1) == 1 {
		data = c.Bytes("tr.databytes", 1, 40)
	}
	_, _ = h.Submit(&nom.AccountBlock{Address: from, ToAddress: to, TokenStandard: z, Amount: amt, Data: data},
		fmt.Sprintf("transfer %s -> %s %v of %s", short(from), short(to), amt, z.String()[:8]))
}

func short(a types.Address) string { return a.String()[:10] }

// Unreceived lists the pending sends for a user account as the node reports them.
func (h *Hist) Unreceived(a types.Address) []types.Hash {
	hs, _ := h.A.Chain.GetFrontierMomentumStore().GetAccountMailbox(a).GetUnreceivedAccountBlockHashes(20)
	return hs
}

// ActReceive: a receive attempt — pending send, someone else's send, or a repeated one.
func (h *Hist) ActReceive() {
	c := h.C
	acc := h.user("rc.acc")
	var from types.Hash
	descr := ""
	switch c.Weighted("rc.kind", 6, 1, 1, 1) {
	case 0:
		pend := h.Unreceived(acc)
		if len(pend) == 0 {
			// look for any account with pending sends so that the action is not wasted
			for _, u := range h.Users {
				if p := h.Unreceived(u); len(p) > 0 {
					acc, pend = u, p
					break
				}
			}
		}
		if len(pend) == 0 {
			return
		}
		from = pend[c.Pick("rc.idx", len(pend))]
		descr = "pending"
	case 1: // a send addressed to another account
		if len(h.Sends) == 0 {
			return
		}
		s := h.Sends[c.Pick("rc.foreign", len(h.Sends))]
		from = s.Hash
		descr = "foreign/any send"
	case 2: // the most recent sends (possibly still unconfirmed or already received)
		if len(h.Sends) == 0 {
			return
		}
		k := len(h.Sends) - 1 - c.Int("rc.recent", 0, min(3, len(h.Sends)-1))
		from = h.Sends[k].Hash
		acc = h.Sends[k].ToAddress
		if h.W.Keys.ByAddr[acc] == nil {
			return
		}
		descr = "recent send (maybe unconfirmed / already received)"
	default:
		from = types.NewHash(c.Bytes("rc.rand", 1, 4))
		descr = "unknown hash"
	}
	_, _ = h.Submit(&nom.AccountBlock{BlockType: nom.BlockTypeUserReceive, Address: acc, FromBlockHash: from},
		fmt.Sprintf("receive by %s of %s (%s)", short(acc), from.String()[:8], descr))
}

// ActCallABI: a call to a generated method of a generated contract with ABI-typed arguments.
func (h *Hist) ActCallABI() {
	c := h.C
	addr := ContractList[c.Pick("call.contract", len(ContractList))]
	if len(h.Focus) > 0 && c.Bool("call.focus") {
		addr = h.Focus[c.Pick("call.focusIdx", len(h.Focus))]
	}
	names := MethodNames(addr)
	method := names[c.Pick("call.method", len(names))]
	layer := c.Weighted("call.layer", 6, 2, 1)
	h.RefreshPools()
	data, descr := GenCallData(c, h.Pools, addr, method, layer)
	from := h.user("call.from")
	if addr == types.SporkContract && method == definition.SporkActivateMethodName && (from == h.W.Keys.Spork.Address || from == h.ExtraSporkKey) {
		// an activated spork that this process does not implement makes the node call os.Exit at
		// its enforcement height; activations by the designated key are generated in C17 only,
		// where the id is bound to an implemented spork first
		from = h.Users[0]
	}
	var z types.ZenonTokenStandard
	var amt *big.Int
	switch c.Weighted("call.amt", 3, 3, 1) {
	case 0:
		z, amt = types.ZnnTokenStandard, big.NewInt(0)
	case 1:
		z = []types.ZenonTokenStandard{types.ZnnTokenStandard, types.QsrTokenStandard}[c.Pick("call.zq", 2)]
		amt = []*big.Int{big.NewInt(1), big.NewInt(Zexp), big.NewInt(10 * Zexp), big.NewInt(5000 * Zexp), big.NewInt(15000 * Zexp),
			big.NewInt(50000 * Zexp), big.NewInt(150000 * Zexp)}[c.Pick("call.amtidx", 7)]
	default:
		z = h.token("call.token")
		amt = h.amountAround("call.amount", h.Balance(from, z))
	}
	b, err := h.Submit(&nom.AccountBlock{Address: from, ToAddress: addr, TokenStandard: z, Amount: amt, Data: data},
		fmt.Sprintf("call %s by %s with %v %s", descr, short(from), amt, z.String()[:8]))
	if err == nil && b != nil {
		h.MethodsOK[ContractNames[addr]+"."+method]++
		h.C.Class("layer-" + []string{"typed", "reencoded", "raw"}[layer] + "-accepted")
	}
}

// ActIntent performs one model-guided valid call, if any is applicable.
func (h *Hist) ActIntent() {
	if len(h.Intents) == 0 {
		return
	}
	start := h.C.Pick("intent", len(h.Intents))
	for i := 0; i < len(h.Intents); i++ {
		in := h.Intents[(start+i)%len(h.Intents)]
		if in.Try(h) {
			h.C.Class("intent-" + in.Name)
			return
		}
	}
}

// ActProduceLazy: the elected pillar produces its momentum and stops (no contract receives, no contract updates):
// confirmed calls pile up in the inboxes until a later pillar does the work.
func (h *Hist) ActProduceLazy() {
	if h.Dead {
		return
	}
	h.C.Checkpoint()
	if err := h.A.ProduceBare(h.C.Weighted("lazy.skip", 6, 1, 1)); err != nil {
		h.C.Note("lazy produce failed: %v", err)
		return
	}
	h.Momentums++
	h.C.Class("momentum-by-a-pillar-that-stops-after-it")
	h.C.Note("momentum %d (pillar stops after its momentum)", h.A.Height())
}

// RestartNode stops the producing node and starts it again on its database (keep: also on its consensus database,
// so that consensus points are read back from storage instead of recomputed).
func (h *Hist) RestartNode(keep bool) bool {
	// the unconfirmed blocks are not persisted; they come back the way they would on a network: from the peers'
	// pools, by gossip (the histories' models observe the pool frontier and do not expect it to move backwards)
	var pool []*nom.AccountBlock
	for _, b := range h.A.Chain.GetAllUncommittedAccountBlocks() {
		if b.BlockType != nom.BlockTypeContractSend {
			pool = append(pool, b)
		}
	}
	defer func() {
		if wb, err := WireBlocks(pool); err == nil {
			for _, b := range wb {
				if err := h.A.Bridge.AddAccountBlocks([]*nom.AccountBlock{b}); err != nil {
					h.C.Failf("sim/restart-pool", "after a restart the node refuses block %v/%d that was in its own pool before: %v", b.Address, b.Height, err)
				}
			}
		}
	}()
	nn, err := h.A.Restart(keep)
	if err != nil {
		h.C.Failf("sim/restart-failed", "the node cannot restart on its own database: %v", err)
		return false
	}
	nn.PreflightOn = h.A.PreflightOn
	nn.OnBlock = h.A.OnBlock
	nn.MethodErrs = h.A.MethodErrs
	h.W.Replace(h.A, nn)
	h.A = nn
	h.C.Note("producer restarted (consensus database kept: %v)", keep)
	return true
}

// ActProduce produces the next momentum (skipping 0..k slots) with the real pillar worker.
func (h *Hist) ActProduce() { h.Produce(h.C.Weighted("skip", 6, 2, 1, 1)) }

// Produce produces one momentum; returns false if the world became unusable.
func (h *Hist) Produce(skip int) bool {
	if h.Dead {
		return false
	}
	h.C.Checkpoint()
	err := h.A.Produce(skip)
	for tries := 0; err != nil && errors.Is(err, ErrNoProducerKey) && tries < 90; tries++ {
		// that pillar cannot produce (nobody holds its producing key): its slot stays empty, the next slot's pillar is asked
		skip++
		h.C.Class("slot-of-a-pillar-without-producer-key-skipped")
		err = h.A.Produce(skip)
	}
	if h.A.Preflight != nil && h.A.Preflight.Panic != nil {
		h.Dead = true
		h.C.Note("produce: %s", h.A.Preflight)
		return false
	}
	if err != nil {
		h.C.Note("produce(skip=%d) failed: %v", skip, err)
		h.C.Failf("sim/produce-failed", "the elected pillar could not produce on an honest chain: %v", err)
		return false
	}
	h.Momentums++
	h.C.Note("momentum %d (skip %d)", h.A.Height(), skip)
	if h.OnMomentum != nil {
		h.OnMomentum()
	}
	return true
}

// CountRefunds counts contract receives at height range that carry a refund descendant.
func (h *Hist) ContractReceives() []*nom.AccountBlock {
	var out []*nom.AccountBlock
	l, err := Scan(h.A)
	if err != nil {
		return nil
	}
	for _, a := range ContractList {
		for _, b := range l.Blocks[a] {
			if b.BlockType == nom.BlockTypeContractReceive {
				out = append(out, b)
			}
		}
	}
	return out
}

// TokenList returns token standards known to the token contract, sorted.
func (h *Hist) TokenList() []*definition.TokenInfo {
	t, _ := Tokens(h.A)
	sort.Slice(t, func(i, j int) bool { return t[i].TokenStandard.String() < t[j].TokenStandard.String() })
	return t
}

func min(a, b int) int {
	if a < b {
		return a
	}
	return b
}
