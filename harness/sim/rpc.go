package sim

import (
	"encoding/json"
	"fmt"
	"sort"
	"time"

	"github.com/zenon-network/go-zenon/chain"
	"github.com/zenon-network/go-zenon/chain/nom"
	"github.com/zenon-network/go-zenon/common/types"
	"github.com/zenon-network/go-zenon/consensus"
	"github.com/zenon-network/go-zenon/pillar"
	"github.com/zenon-network/go-zenon/protocol"
	"github.com/zenon-network/go-zenon/rpc/api"
	"github.com/zenon-network/go-zenon/rpc/api/embedded"
	"github.com/zenon-network/go-zenon/verifier"
	"github.com/zenon-network/go-zenon/zenon"
)

// ZAdapter exposes a Node as zenon.Zenon for the rpc/api constructors.
type ZAdapter struct{ N *Node }

func (z *ZAdapter) Init() error                         { return nil }
func (z *ZAdapter) Start() error                        { return nil }
func (z *ZAdapter) Stop() error                         { return nil }
func (z *ZAdapter) Chain() chain.Chain                  { return z.N.Chain }
func (z *ZAdapter) Consensus() consensus.Consensus      { return z.N.Cons }
func (z *ZAdapter) Verifier() verifier.Verifier         { return z.N.Ver }
func (z *ZAdapter) Protocol() *protocol.ProtocolManager { return nil }
func (z *ZAdapter) Producer() pillar.Manager            { return nil }
func (z *ZAdapter) Config() *zenon.Config               { return nil }
func (z *ZAdapter) Broadcaster() protocol.Broadcaster   { return z.N }

var _ zenon.Zenon = (*ZAdapter)(nil)

func j(v interface{}, err error) string {
	if err != nil {
		return "error: " + err.Error()
	}
	b, e := json.Marshal(v)
	if e != nil {
		return "marshal-error: " + e.Error()
	}
	return string(b)
}

// Battery answers a fixed list of queries about confirmed ledger state. Only confirmed state is
// asked about: pool content legitimately differs between nodes.
func Battery(n *Node) (out map[string]string) {
	out = map[string]string{}
	defer func() {
		if r := recover(); r != nil {
			out["PANIC"] = fmt.Sprint(r)
		}
	}()
	z := &ZAdapter{n}
	led := api.NewLedgerApi(z)
	out["frontier"] = j(led.GetFrontierMomentum())
	out["momentumsByHeight"] = j(led.GetMomentumsByHeight(1, 200))
	out["momentumsByPage0"] = j(led.GetMomentumsByPage(0, 50))
	out["detailed"] = j(led.GetDetailedMomentumsByHeight(1, 60))
	ms := n.Chain.GetFrontierMomentumStore()
	// accounts present in the confirmed store
	set := map[types.Address]bool{}
	it := n.Mgr.Frontier().NewIterator([]byte{3})
	for it.Next() {
		if it.Value() == nil || len(it.Key()) < 21 {
			continue
		}
		a, _ := types.BytesToAddress(it.Key()[1:21])
		set[a] = true
	}
	it.Release()
	var accs []types.Address
	for a := range set {
		accs = append(accs, a)
	}
	sort.Slice(accs, func(i, k int) bool { return accs[i].String() < accs[k].String() })
	tok := embedded.NewTokenApi(z)
	pil := embedded.NewPillarApi(z, true)
	pls := embedded.NewPlasmaApi(z)
	stk := embedded.NewStakeApi(z)
	sen := embedded.NewSentinelApi(z)
	spk := embedded.NewSporkApi(z)
	acc := embedded.NewAcceleratorApi(z)
	out["tokens"] = j(tok.GetAll(0, 100))
	out["sporks"] = j(spk.GetAll(0, 100))
	out["projects"] = j(acc.GetAll(0, 100))
	out["sentinels"] = j(sen.GetAllActive(0, 100))
	out["pillarsByEpoch0"] = j(pil.GetPillarsHistoryByEpoch(0, 0, 100))
	out["pillarsByEpoch1"] = j(pil.GetPillarsHistoryByEpoch(1, 0, 100))
	out["qsrCost"] = j(pil.GetQsrRegistrationCost())
	for _, a := range accs {
		k := a.String()[:12]
		confirmed := ms.GetAccountStore(a).Identifier().Height
		out["abh/"+k] = j(led.GetAccountBlocksByHeight(a, 1, confirmed))
		out["unrecv/"+k] = j(led.GetUnreceivedBlocksByAddress(a, 0, 50))
		bal, err := ms.GetAccountStore(a).GetBalanceMap()
		out["balance/"+k] = j(bal, err)
		out["fused/"+k] = j(ms.GetStakeBeneficialAmount(a))
		out["fusions/"+k] = j(pls.GetEntriesByAddress(a, 0, 50))
		out["stakes/"+k] = j(stk.GetEntriesByAddress(a, 0, 50))
		out["stakeReward/"+k] = j(stk.GetUncollectedReward(a))
		out["pillarReward/"+k] = j(pil.GetUncollectedReward(a))
		out["sentinelReward/"+k] = j(sen.GetUncollectedReward(a))
		out["pillarDeposit/"+k] = j(pil.GetDepositedQsr(a))
		out["rewardHist/"+k] = j(stk.GetFrontierRewardByPage(a, 0, 20))
	}
	return out
}

// DiffBattery returns the first differing query between two nodes ("" if none).
func DiffBattery(a, b map[string]string) string {
	keys := map[string]bool{}
	for k := range a {
		keys[k] = true
	}
	for k := range b {
		keys[k] = true
	}
	var ks []string
	for k := range keys {
		ks = append(ks, k)
	}
	sort.Strings(ks)
	for _, k := range ks {
		if a[k] != b[k] {
			x, y := a[k], b[k]
			// show the window around the first difference
			i := 0
			for i < len(x) && i < len(y) && x[i] == y[i] {
				i++
			}
			from := i - 200
			if from < 0 {
				from = 0
			}
			cut := func(s string) string {
				s = s[from:]
				if len(s) > 400 {
					s = s[:400] + "…"
				}
				return s
			}
			return fmt.Sprintf("query %s (answers part at byte %d): …%s  VS  …%s", k, i, cut(x), cut(y))
		}
	}
	return ""
}

// ConsensusSummary: epoch statistics of every started epoch, pillar weights and the producer
// schedule of the frontier's tick and the next one.
func ConsensusSummary(n *Node) (out map[string]string) {
	out = map[string]string{}
	defer func() {
		if r := recover(); r != nil {
			out["PANIC"] = fmt.Sprint(r)
		}
	}()
	front := n.Frontier()
	r := n.Cons.FrontierPillarReader()
	epoch := r.EpochTicker().ToTick(*front.Timestamp)
	for e := uint64(0); e <= epoch; e++ {
		out[fmt.Sprintf("epochStats/%d", e)] = j(r.EpochStats(e))
		out[fmt.Sprintf("delegations/%d", e)] = j(r.GetPillarDelegationsByEpoch(e))
	}
	out["weights"] = j(r.GetPillarWeights())
	gen := n.Chain.GetGenesisMomentum().Timestamp
	tick := uint64(front.Timestamp.Sub(*gen) / (300 * 1e9))
	for t := tick; t <= tick+1; t++ {
		s := ""
		for slot := 0; slot < 30; slot++ {
			ts := gen.Add(time.Duration(300*t+10*uint64(slot)) * time.Second)
			p, err := n.Cons.GetMomentumProducer(ts)
			if err != nil {
				s += "err:" + err.Error() + ","
			} else {
				s += p.String()[:8] + ","
			}
		}
		out[fmt.Sprintf("schedule/%d", t)] = s
	}
	return out
}

// ViaPublishJSON passes a block through the JSON-RPC publication route (ledger.publishRawTransaction): the block
// as JSON text, decoded into the RPC type, converted to a ledger block, token standard checked against the ledger.
// It returns the block the RPC handler hands to the supervisor, or the error the handler answers before that.
func ViaPublishJSON(n *Node, b *nom.AccountBlock) (*nom.AccountBlock, error) {
	text, err := json.Marshal(b)
	if err != nil {
		return nil, err
	}
	rb := new(api.AccountBlock)
	if err := json.Unmarshal(text, rb); err != nil {
		return nil, err
	}
	if rb.ChainIdentifier != 0 && rb.ChainIdentifier != n.Chain.ChainIdentifier() {
		return nil, fmt.Errorf("the block has a different network Id")
	}
	lb, err := rb.ToLedgerBlock()
	if err != nil {
		return nil, err
	}
	if lb.TokenStandard != types.ZeroTokenStandard {
		ti, err := n.Chain.GetFrontierMomentumStore().GetTokenInfoByTs(lb.TokenStandard)
		if err != nil {
			return nil, err
		}
		if ti == nil {
			return nil, fmt.Errorf("ts doesn't exist")
		}
	}
	return lb, nil
}
