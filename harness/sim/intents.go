package sim

import (
	"crypto/sha256"
	"encoding/base64"
	"fmt"
	"math/big"

	"github.com/zenon-network/go-zenon/chain/nom"
	"github.com/zenon-network/go-zenon/common/crypto"
	"github.com/zenon-network/go-zenon/common/types"
	"github.com/zenon-network/go-zenon/vm/constants"
	"github.com/zenon-network/go-zenon/vm/embedded/definition"
	"github.com/zenon-network/go-zenon/vm/embedded/implementation"
)

// Model-guided layer: calls that are valid (or deliberately just invalid) in the current state,
// so that deep contract states are reached by construction.

func zq(v int64) *big.Int { return new(big.Int).Mul(big.NewInt(v), big.NewInt(Zexp)) }

func (h *Hist) storage(contract types.Address) interface {
	Get([]byte) ([]byte, error)
} {
	return h.A.Chain.GetFrontierAccountStore(contract).Storage()
}

func (h *Hist) call(from, contract types.Address, z types.ZenonTokenStandard, amt *big.Int, data []byte, descr string) bool {
	// hostile variant of any model-guided call: the right amount in another token the sender holds (a contract that
	// checks only one of the two books a deposit it was not paid)
	if amt != nil && amt.Sign() > 0 && h.C.Weighted("call.otherToken", 14, 1) == 1 {
		var others []types.ZenonTokenStandard
		for _, t := range h.Pools.Tokens {
			if t != z && t != types.ZeroTokenStandard && h.Balance(from, t).Cmp(amt) >= 0 {
				others = append(others, t)
			}
		}
		if len(others) > 0 {
			z = others[h.C.Pick("call.otherTokenIdx", len(others))]
			descr += " [paid in another token]"
			h.C.Class("intent-paid-in-another-token")
		}
	}
	b, err := h.Submit(&nom.AccountBlock{Address: from, ToAddress: contract, TokenStandard: z, Amount: amt, Data: data},
		fmt.Sprintf("intent %s by %s with %v %s", descr, short(from), amt, z.String()[:8]))
	return err == nil && b != nil
}

// ActCall submits one call to a contract (exported form of call for property-specific actions).
func (h *Hist) ActCall(from, contract types.Address, z types.ZenonTokenStandard, amt *big.Int, data []byte, descr string) bool {
	return h.call(from, contract, z, amt, data, descr)
}

// HtlcSecret remembers preimages of hash locks created by the harness.
type HtlcSecret struct {
	Id       types.Hash
	Preimage []byte
	Creator  types.Address
	Locked   types.Address
}

// DefaultIntents returns the model-guided intents.
func DefaultIntents() []Intent {
	return []Intent{
		{"token-issue", intentIssue}, {"token-mint", intentMint}, {"token-burn", intentBurn}, {"token-update", intentUpdateToken},
		{"plasma-fuse", intentFuse}, {"plasma-cancel", intentCancelFuse},
		{"stake", intentStake}, {"stake-cancel", intentCancelStake},
		{"pillar-delegate", intentDelegate}, {"pillar-undelegate", intentUndelegate},
		{"deposit-qsr", intentDepositQsr}, {"withdraw-qsr", intentWithdrawQsr},
		{"sentinel-register", intentSentinelRegister}, {"sentinel-revoke", intentSentinelRevoke},
		{"collect-reward", intentCollect}, {"donate", intentDonate},
		{"htlc-create", intentHtlcCreate}, {"htlc-unlock", intentHtlcUnlock}, {"htlc-reclaim", intentHtlcReclaim},
		{"htlc-proxy", intentHtlcProxy},
		{"pillar-register", intentPillarRegister}, {"pillar-revoke", intentPillarRevoke}, {"pillar-update", intentPillarUpdate},
		{"accelerator-project", intentProject}, {"accelerator-vote", intentVote},
		{"accelerator-add-phase", intentAddPhase}, {"accelerator-update-phase", intentUpdatePhase},
		{"swap-retrieve", intentSwapRetrieve}, {"pillar-register-legacy", intentRegisterLegacy},
		{"accelerator-voting-ends", intentVotingEnds},
	}
}

func intentIssue(h *Hist) bool {
	c := h.C
	from := h.user("issue.from")
	if h.Balance(from, types.ZnnTokenStandard).Cmp(constants.TokenIssueAmount) < 0 {
		return false
	}
	mintable := c.Bool("issue.mintable")
	total := []*big.Int{big.NewInt(0), big.NewInt(1), big.NewInt(1000), zq(1000000)}[c.Pick("issue.total", 4)]
	max := new(big.Int).Set(total)
	if mintable {
		max = []*big.Int{new(big.Int).Add(total, big.NewInt(1)), new(big.Int).Mul(new(big.Int).Add(total, big.NewInt(5)), big.NewInt(3)),
			new(big.Int).Set(constants.TokenMaxSupplyBig)}[c.Pick("issue.max", 3)]
	}
	if max.Sign() == 0 {
		max = big.NewInt(1)
		total = big.NewInt(1)
	}
	// supply combinations the token contract must refuse (total above max, non-mintable with total != max,
	// max of zero or above 2^255-1): one slip in that validation breaks the supply bound
	if c.Weighted("issue.hostileSupply", 5, 1) == 1 {
		switch c.Pick("issue.hostileKind", 5) {
		case 0:
			total = new(big.Int).Add(max, big.NewInt(int64(c.Int("issue.over", 1, 1000))))
		case 1:
			mintable = false
			total = new(big.Int).Add(max, big.NewInt(990))
		case 2:
			mintable = false
			if max.Cmp(big.NewInt(2)) < 0 {
				max = big.NewInt(10)
			}
			total = new(big.Int).Sub(max, big.NewInt(1))
		case 3:
			max = big.NewInt(0)
			total = big.NewInt(0)
		default:
			max = new(big.Int).Lsh(big.NewInt(1), 255)
			total = new(big.Int).Set(max)
		}
	}
	n := len(h.TokenList())
	data := definition.ABIToken.PackMethodPanic(definition.IssueMethodName, fmt.Sprintf("Verif-Token.%d", n), fmt.Sprintf("VT%d", n), "verif.test",
		total, max, uint8(c.Int("issue.dec", 0, 18)), mintable, c.Bool("issue.burnable"), c.Bool("issue.utility"))
	return h.call(from, types.TokenContract, types.ZnnTokenStandard, new(big.Int).Set(constants.TokenIssueAmount), data,
		fmt.Sprintf("token.IssueToken(total=%v,max=%v,mintable=%v)", total, max, mintable))
}

func (h *Hist) customTokens() []*definition.TokenInfo {
	var out []*definition.TokenInfo
	for _, t := range h.TokenList() {
		if t.TokenStandard != types.ZnnTokenStandard && t.TokenStandard != types.QsrTokenStandard {
			out = append(out, t)
		}
	}
	return out
}

func intentMint(h *Hist) bool {
	c := h.C
	toks := h.customTokens()
	if len(toks) == 0 {
		return false
	}
	t := toks[c.Pick("mint.tok", len(toks))]
	from := t.Owner
	if c.Weighted("mint.byOther", 5, 1) == 1 || h.W.Keys.ByAddr[from] == nil {
		from = h.user("mint.from")
	}
	room := new(big.Int).Sub(t.MaxSupply, t.TotalSupply)
	amt := []*big.Int{big.NewInt(1), new(big.Int).Set(room), new(big.Int).Add(room, big.NewInt(1)), new(big.Int).Rsh(room, 1)}[c.Pick("mint.amt", 4)]
	if amt.Sign() <= 0 {
		amt = big.NewInt(1)
	}
	to := h.Pools.Addrs[c.Pick("mint.to", len(h.Pools.Addrs))]
	data := definition.ABIToken.PackMethodPanic(definition.MintMethodName, t.TokenStandard, amt, to)
	return h.call(from, types.TokenContract, types.ZnnTokenStandard, big.NewInt(0), data,
		fmt.Sprintf("token.Mint(%s, %v, to %s) room=%v mintable=%v", t.TokenSymbol, amt, short(to), room, t.IsMintable))
}

func intentBurn(h *Hist) bool {
	c := h.C
	from := h.user("burn.from")
	toks := h.TokenList()
	t := toks[c.Pick("burn.tok", len(toks))]
	bal := h.Balance(from, t.TokenStandard)
	if bal.Sign() == 0 {
		return false
	}
	amt := []*big.Int{big.NewInt(1), new(big.Int).Set(bal), new(big.Int).Rsh(bal, 4)}[c.Pick("burn.amt", 3)]
	if amt.Sign() == 0 {
		amt = big.NewInt(1)
	}
	return h.call(from, types.TokenContract, t.TokenStandard, amt, definition.ABIToken.PackMethodPanic(definition.BurnMethodName),
		fmt.Sprintf("token.Burn(%s) burnable=%v owner=%v", t.TokenSymbol, t.IsBurnable, t.Owner == from))
}

func intentUpdateToken(h *Hist) bool {
	c := h.C
	toks := h.customTokens()
	if len(toks) == 0 {
		return false
	}
	t := toks[c.Pick("upd.tok", len(toks))]
	from := t.Owner
	if c.Weighted("upd.byOther", 5, 1) == 1 || h.W.Keys.ByAddr[from] == nil {
		from = h.user("upd.from")
	}
	newOwner := t.Owner
	if c.Weighted("upd.transfer", 3, 1) == 1 {
		newOwner = h.user("upd.owner")
	}
	data := definition.ABIToken.PackMethodPanic(definition.UpdateTokenMethodName, t.TokenStandard, newOwner, c.Bool("upd.mintable"), c.Bool("upd.burnable"))
	return h.call(from, types.TokenContract, types.ZnnTokenStandard, big.NewInt(0), data, fmt.Sprintf("token.UpdateToken(%s)", t.TokenSymbol))
}

func intentFuse(h *Hist) bool {
	c := h.C
	from := h.user("fuse.from")
	units := int64(c.Int("fuse.units", 10, 60))
	if h.Balance(from, types.QsrTokenStandard).Cmp(zq(units)) < 0 {
		return false
	}
	ben := h.user("fuse.ben")
	return h.call(from, types.PlasmaContract, types.QsrTokenStandard, zq(units), definition.ABIPlasma.PackMethodPanic(definition.FuseMethodName, ben),
		fmt.Sprintf("plasma.Fuse(%s)", short(ben)))
}

func intentCancelFuse(h *Hist) bool {
	c := h.C
	st := h.A.Chain.GetFrontierAccountStore(types.PlasmaContract).Storage()
	start := c.Pick("cf.owner", len(h.Users))
	for i := range h.Users {
		owner := h.Users[(start+i)%len(h.Users)]
		list, _, err := definition.GetFusionInfoListByOwner(st, owner)
		if err != nil || len(list) == 0 {
			continue
		}
		f := list[c.Pick("cf.idx", len(list))]
		from := owner
		if c.Weighted("cf.byOther", 6, 1) == 1 {
			from = h.user("cf.from")
		}
		return h.call(from, types.PlasmaContract, types.ZnnTokenStandard, big.NewInt(0), definition.ABIPlasma.PackMethodPanic(definition.CancelFuseMethodName, f.Id),
			fmt.Sprintf("plasma.CancelFuse(%s) expires@%d now@%d owner=%v", f.Id.String()[:8], f.ExpirationHeight, h.A.Height(), from == owner))
	}
	return false
}

func intentStake(h *Hist) bool {
	c := h.C
	from := h.user("stake.from")
	amt := []*big.Int{zq(1), zq(int64(c.Int("stake.amt", 1, 300)))}[c.Pick("stake.kind", 2)]
	if h.Balance(from, types.ZnnTokenStandard).Cmp(amt) < 0 {
		return false
	}
	months := int64(c.Int("stake.months", 1, 12))
	if c.Weighted("stake.short", 3, 1) == 0 {
		months = 1
	}
	return h.call(from, types.StakeContract, types.ZnnTokenStandard, amt,
		definition.ABIStake.PackMethodPanic(definition.StakeMethodName, months*constants.StakeTimeUnitSec), fmt.Sprintf("stake.Stake(%d units)", months))
}

func intentCancelStake(h *Hist) bool {
	c := h.C
	st := h.A.Chain.GetFrontierAccountStore(types.StakeContract).Storage()
	start := c.Pick("cs.owner", len(h.Users))
	for i := range h.Users {
		owner := h.Users[(start+i)%len(h.Users)]
		list, _, _, err := definition.GetStakeListByAddress(st, owner)
		if err != nil || len(list) == 0 {
			continue
		}
		s := list[c.Pick("cs.idx", len(list))]
		from := owner
		if c.Weighted("cs.byOther", 6, 1) == 1 {
			from = h.user("cs.from")
		}
		return h.call(from, types.StakeContract, types.ZnnTokenStandard, big.NewInt(0), definition.ABIStake.PackMethodPanic(definition.CancelStakeMethodName, s.Id),
			fmt.Sprintf("stake.Cancel(%s) expires@%d now@%d amount=%v owner=%v", s.Id.String()[:8], s.ExpirationTime, h.A.Frontier().Timestamp.Unix(), s.Amount, from == owner))
	}
	return false
}

func intentDelegate(h *Hist) bool {
	c := h.C
	if len(h.W.Spec.Pillars) == 0 {
		return false
	}
	from := h.user("dg.from")
	name := h.W.Spec.Pillars[c.Pick("dg.pillar", len(h.W.Spec.Pillars))].Name
	return h.call(from, types.PillarContract, types.ZnnTokenStandard, big.NewInt(0), definition.ABIPillars.PackMethodPanic(definition.DelegateMethodName, name),
		fmt.Sprintf("pillar.Delegate(%s)", name))
}

func intentUndelegate(h *Hist) bool {
	from := h.user("udg.from")
	return h.call(from, types.PillarContract, types.ZnnTokenStandard, big.NewInt(0), definition.ABIPillars.PackMethodPanic(definition.UndelegateMethodName), "pillar.Undelegate()")
}

func depositContract(h *Hist, label string) types.Address {
	return []types.Address{types.PillarContract, types.SentinelContract}[h.C.Pick(label, 2)]
}

func intentDepositQsr(h *Hist) bool {
	c := h.C
	from := h.user("dq.from")
	ct := depositContract(h, "dq.contract")
	amt := []*big.Int{big.NewInt(1), zq(int64(c.Int("dq.amt", 1, 1000))), zq(50000), zq(150000)}[c.Pick("dq.kind", 4)]
	if c.Weighted("dq.exact", 1, 1) == 1 {
		// what is still missing for the next registration (the cost of a pillar grows with their number)
		need := new(big.Int).Set(constants.SentinelQsrDepositAmount)
		if ct == types.PillarContract {
			need = h.pillarCost()
		}
		need.Sub(need, h.deposit(ct, from))
		if need.Sign() > 0 {
			amt = need
		}
	}
	if h.Balance(from, types.QsrTokenStandard).Cmp(amt) < 0 {
		return false
	}
	return h.call(from, ct, types.QsrTokenStandard, amt, definition.ABICommon.PackMethodPanic(definition.DepositQsrMethodName), ContractNames[ct]+".DepositQsr()")
}

func intentWithdrawQsr(h *Hist) bool {
	from := h.user("wq.from")
	ct := depositContract(h, "wq.contract")
	return h.call(from, ct, types.ZnnTokenStandard, big.NewInt(0), definition.ABICommon.PackMethodPanic(definition.WithdrawQsrMethodName), ContractNames[ct]+".WithdrawQsr()")
}

// deposit returns the QSR a user has deposited in the pillar or sentinel contract (pool frontier).
func (h *Hist) deposit(ct, a types.Address) *big.Int {
	d, err := definition.GetQsrDeposit(h.A.Chain.GetFrontierAccountStore(ct).Storage(), &a)
	if err != nil || d == nil || d.Qsr == nil {
		return new(big.Int)
	}
	return new(big.Int).Set(d.Qsr)
}

// pillarCost is the QSR the next pillar registration consumes.
func (h *Hist) pillarCost() *big.Int {
	list, err := definition.GetPillarsList(h.A.Chain.GetFrontierAccountStore(types.PillarContract).Storage(), true, definition.NormalPillarType)
	if err != nil {
		return new(big.Int).Set(constants.PillarQsrStakeBaseAmount)
	}
	cost := new(big.Int).Mul(constants.PillarQsrStakeIncreaseAmount, big.NewInt(int64(len(list))))
	return cost.Add(cost, constants.PillarQsrStakeBaseAmount)
}

// depositor picks a user whose deposit in ct covers need (most of the time, if there is one), else any user.
func (h *Hist) depositor(label string, ct types.Address, need *big.Int) types.Address {
	var ok []types.Address
	for _, u := range h.Users {
		if h.deposit(ct, u).Cmp(need) >= 0 {
			ok = append(ok, u)
		}
	}
	if len(ok) > 0 && h.C.Weighted(label+".funded", 1, 4) == 1 {
		return ok[h.C.Pick(label+".fundedIdx", len(ok))]
	}
	return h.user(label)
}

func intentSentinelRegister(h *Hist) bool {
	from := h.depositor("sr.from", types.SentinelContract, constants.SentinelQsrDepositAmount)
	if h.Balance(from, types.ZnnTokenStandard).Cmp(constants.SentinelZnnRegisterAmount) < 0 {
		return false
	}
	return h.call(from, types.SentinelContract, types.ZnnTokenStandard, new(big.Int).Set(constants.SentinelZnnRegisterAmount),
		definition.ABISentinel.PackMethodPanic(definition.RegisterSentinelMethodName), "sentinel.Register()")
}

func intentSentinelRevoke(h *Hist) bool {
	st := h.A.Chain.GetFrontierAccountStore(types.SentinelContract).Storage()
	all := definition.GetAllSentinelInfo(st)
	from := h.user("srv.from")
	if len(all) > 0 && h.C.Weighted("srv.owner", 1, 5) == 1 {
		from = all[h.C.Pick("srv.idx", len(all))].Owner
		if h.W.Keys.ByAddr[from] == nil {
			return false
		}
	}
	return h.call(from, types.SentinelContract, types.ZnnTokenStandard, big.NewInt(0), definition.ABISentinel.PackMethodPanic(definition.RevokeSentinelMethodName), "sentinel.Revoke()")
}

func intentCollect(h *Hist) bool {
	cts := []types.Address{types.PillarContract, types.SentinelContract, types.StakeContract, types.LiquidityContract}
	ct := cts[h.C.Pick("col.contract", len(cts))]
	from := h.user("col.from")
	return h.call(from, ct, types.ZnnTokenStandard, big.NewInt(0), definition.ABICommon.PackMethodPanic(definition.CollectRewardMethodName), ContractNames[ct]+".CollectReward()")
}

func intentDonate(h *Hist) bool {
	cts := []types.Address{types.AcceleratorContract, types.LiquidityContract}
	ct := cts[h.C.Pick("don.contract", len(cts))]
	from := h.user("don.from")
	z := h.token("don.token")
	bal := h.Balance(from, z)
	if bal.Sign() == 0 {
		return false
	}
	amt := new(big.Int).Div(bal, big.NewInt(int64(h.C.Int("don.div", 2, 500))))
	if amt.Sign() == 0 {
		amt = big.NewInt(1)
	}
	return h.call(from, ct, z, amt, definition.ABICommon.PackMethodPanic(definition.DonateMethodName), ContractNames[ct]+".Donate()")
}

func intentHtlcCreate(h *Hist) bool {
	c := h.C
	from := h.user("hc.from")
	z := h.token("hc.token")
	bal := h.Balance(from, z)
	if bal.Sign() == 0 {
		return false
	}
	amt := new(big.Int).Div(bal, big.NewInt(int64(c.Int("hc.div", 2, 300))))
	if amt.Sign() == 0 {
		amt = big.NewInt(1)
	}
	locked := h.Pools.Addrs[c.Pick("hc.locked", len(h.Pools.Addrs))]
	pre := c.Bytes("hc.preimage", 0, 40)
	hashType := uint8(c.Int("hc.hashType", 0, 1))
	var lock []byte
	if hashType == definition.HashTypeSHA3 {
		lock = crypto.Hash(pre)
	} else {
		s := sha256.Sum256(pre)
		lock = s[:]
	}
	keyMax := uint8(c.Int("hc.keyMax", 1, 255))
	if c.Weighted("hc.keyMaxFit", 4, 1) == 0 && len(pre) > 0 {
		keyMax = uint8(len(pre))
	}
	now := h.A.Frontier().Timestamp.Unix()
	exp := now + int64([]int{15, 60, 600, 86400}[c.Pick("hc.exp", 4)])
	data := definition.ABIHtlc.PackMethodPanic(definition.CreateHtlcMethodName, locked, exp, hashType, keyMax, lock)
	b, err := h.Submit(&nom.AccountBlock{Address: from, ToAddress: types.HtlcContract, TokenStandard: z, Amount: amt, Data: data},
		fmt.Sprintf("intent htlc.Create(locked=%s, exp=+%ds, type=%d, keyMax=%d, |pre|=%d) by %s with %v %s", short(locked), exp-now, hashType, keyMax, len(pre), short(from), amt, z.String()[:8]))
	if err != nil || b == nil {
		return false
	}
	h.Htlcs = append(h.Htlcs, HtlcSecret{Id: b.Hash, Preimage: pre, Creator: from, Locked: locked})
	return true
}

func intentHtlcUnlock(h *Hist) bool {
	c := h.C
	if len(h.Htlcs) == 0 {
		return false
	}
	s := h.Htlcs[c.Pick("hu.idx", len(h.Htlcs))]
	if c.Weighted("hu.recent", 1, 2) == 1 {
		// the newest ones are the ones still locked and not expired
		s = h.Htlcs[len(h.Htlcs)-1-c.Int("hu.recentIdx", 0, min(2, len(h.Htlcs)-1))]
	}
	from := s.Locked
	if c.Weighted("hu.byOther", 3, 1) == 1 || h.W.Keys.ByAddr[from] == nil {
		from = h.user("hu.from")
	}
	pre := s.Preimage
	switch c.Weighted("hu.pre", 5, 1, 1) {
	case 1:
		pre = append(append([]byte{}, pre...), 0)
	case 2:
		pre = c.Bytes("hu.wrong", 0, 300)
	}
	return h.call(from, types.HtlcContract, types.ZnnTokenStandard, big.NewInt(0), definition.ABIHtlc.PackMethodPanic(definition.UnlockHtlcMethodName, s.Id, pre),
		fmt.Sprintf("htlc.Unlock(%s, |pre|=%d, correct=%v, byLocked=%v)", s.Id.String()[:8], len(pre), string(pre) == string(s.Preimage), from == s.Locked))
}

func intentHtlcReclaim(h *Hist) bool {
	c := h.C
	if len(h.Htlcs) == 0 {
		return false
	}
	s := h.Htlcs[c.Pick("hr.idx", len(h.Htlcs))]
	from := s.Creator
	if c.Weighted("hr.byOther", 4, 1) == 1 {
		from = h.user("hr.from")
	}
	return h.call(from, types.HtlcContract, types.ZnnTokenStandard, big.NewInt(0), definition.ABIHtlc.PackMethodPanic(definition.ReclaimHtlcMethodName, s.Id),
		fmt.Sprintf("htlc.Reclaim(%s, byCreator=%v)", s.Id.String()[:8], from == s.Creator))
}

func intentHtlcProxy(h *Hist) bool {
	from := h.user("hp.from")
	m := definition.DenyHtlcProxyUnlockMethodName
	if h.C.Bool("hp.allow") {
		m = definition.AllowHtlcProxyUnlockMethodName
	}
	return h.call(from, types.HtlcContract, types.ZnnTokenStandard, big.NewInt(0), definition.ABIHtlc.PackMethodPanic(m), "htlc."+m+"()")
}

func intentPillarRegister(h *Hist) bool {
	c := h.C
	from := h.depositor("pr.from", types.PillarContract, h.pillarCost())
	if h.Balance(from, types.ZnnTokenStandard).Cmp(constants.PillarStakeAmount) < 0 {
		return false
	}
	name := fmt.Sprintf("VP-new-%d", c.Int("pr.name", 0, 5))
	prod := h.user("pr.prod")
	if c.Weighted("pr.freeProducer", 1, 3) == 1 {
		// a producing address no pillar uses yet
		used := map[types.Address]bool{}
		if list, err := definition.GetPillarsList(h.A.Chain.GetFrontierAccountStore(types.PillarContract).Storage(), false, definition.AnyPillarType); err == nil {
			for _, p := range list {
				used[p.BlockProducingAddress] = true
			}
		}
		for _, u := range h.Users {
			if !used[u] {
				prod = u
				break
			}
		}
	}
	reward := h.user("pr.reward")
	data := definition.ABIPillars.PackMethodPanic(definition.RegisterMethodName, name, prod, reward, uint8(c.Int("pr.give1", 0, 100)), uint8(c.Int("pr.give2", 0, 100)))
	return h.call(from, types.PillarContract, types.ZnnTokenStandard, new(big.Int).Set(constants.PillarStakeAmount), data,
		fmt.Sprintf("pillar.Register(%s, prod=%s)", name, short(prod)))
}

func intentPillarRevoke(h *Hist) bool {
	c := h.C
	st := h.A.Chain.GetFrontierAccountStore(types.PillarContract).Storage()
	list, err := definition.GetPillarsList(st, true, definition.AnyPillarType)
	if err != nil || len(list) == 0 {
		return false
	}
	p := list[c.Pick("prv.idx", len(list))]
	from := p.StakeAddress
	if c.Weighted("prv.byOther", 4, 1) == 1 || h.W.Keys.ByAddr[from] == nil {
		from = h.user("prv.from")
	}
	return h.call(from, types.PillarContract, types.ZnnTokenStandard, big.NewInt(0), definition.ABIPillars.PackMethodPanic(definition.RevokeMethodName, p.Name),
		fmt.Sprintf("pillar.Revoke(%s) byOwner=%v", p.Name, from == p.StakeAddress))
}

// intentPillarUpdate: the owner of a pillar changes its reward address, its percentages and sometimes its producer.
func intentPillarUpdate(h *Hist) bool {
	c := h.C
	st := h.A.Chain.GetFrontierAccountStore(types.PillarContract).Storage()
	list, err := definition.GetPillarsList(st, true, definition.AnyPillarType)
	if err != nil || len(list) == 0 {
		return false
	}
	p := list[c.Pick("pu.idx", len(list))]
	from := p.StakeAddress
	if h.W.Keys.ByAddr[from] == nil {
		return false
	}
	prod := p.BlockProducingAddress
	if c.Weighted("pu.newProducer", 4, 1) == 1 {
		prod = h.user("pu.prod")
	}
	reward := h.user("pu.reward")
	data := definition.ABIPillars.PackMethodPanic(definition.UpdatePillarMethodName, p.Name, prod, reward, uint8(c.Int("pu.give1", 0, 100)), uint8(c.Int("pu.give2", 0, 100)))
	return h.call(from, types.PillarContract, types.ZnnTokenStandard, big.NewInt(0), data,
		fmt.Sprintf("pillar.UpdatePillar(%s, prod=%s, reward=%s)", p.Name, short(prod), short(reward)))
}

func intentProject(h *Hist) bool {
	c := h.C
	from := h.user("pj.from")
	if h.Balance(from, types.ZnnTokenStandard).Cmp(constants.ProjectCreationAmount) < 0 {
		return false
	}
	data := definition.ABIAccelerator.PackMethodPanic(definition.CreateProjectMethodName, fmt.Sprintf("proj-%d", c.Int("pj.n", 0, 9)), "a verif project",
		"www.verif.test", zq(int64(c.Int("pj.znn", 0, 5000))), zq(int64(c.Int("pj.qsr", 0, 50000))))
	b, err := h.Submit(&nom.AccountBlock{Address: from, ToAddress: types.AcceleratorContract, TokenStandard: types.ZnnTokenStandard,
		Amount: new(big.Int).Set(constants.ProjectCreationAmount), Data: data}, "intent accelerator.CreateProject by "+short(from))
	if err != nil || b == nil {
		return false
	}
	h.Projects = append(h.Projects, b.Hash)
	return true
}

func intentVote(h *Hist) bool {
	c := h.C
	if len(h.Projects) == 0 || len(h.W.Spec.Pillars) == 0 {
		return false
	}
	id := h.Projects[c.Pick("vt.proj", len(h.Projects))]
	pi := c.Pick("vt.pillar", len(h.W.Spec.Pillars))
	ps := h.W.Spec.Pillars[pi]
	from := PillarKey(ps.Key).Address
	vote := uint8(c.Int("vt.vote", 0, 3))
	if c.Weighted("vt.yes", 1, 2) == 1 {
		vote = definition.VoteYes // enough of them make the project (or its phase) pass at the next update
	}
	data := definition.ABICommon.PackMethodPanic(definition.VoteByNameMethodName, id, ps.Name, vote)
	if c.Weighted("vt.byProducer", 3, 1) == 1 {
		// the same vote cast with the pillar's producing key (genesis pillars produce with their own address)
		data = definition.ABICommon.PackMethodPanic(definition.VoteByProdAddressMethodName, id, vote)
		return h.call(from, types.AcceleratorContract, types.ZnnTokenStandard, big.NewInt(0), data, fmt.Sprintf("accelerator.VoteByProdAddress(%s) by %s", id.String()[:8], ps.Name))
	}
	return h.call(from, types.AcceleratorContract, types.ZnnTokenStandard, big.NewInt(0), data, fmt.Sprintf("accelerator.VoteByName(%s, %s)", id.String()[:8], ps.Name))
}

// intentVotingEnds: time passes until the voting period of a project that is still under vote has ended (the next
// accelerator update closes it), once per project.
func intentVotingEnds(h *Hist) bool {
	st := h.A.Chain.GetFrontierAccountStore(types.AcceleratorContract).Storage()
	list, err := definition.GetProjectList(st)
	if err != nil {
		return false
	}
	now := h.A.Frontier().Timestamp.Unix()
	for _, p := range list {
		if p.Status == definition.VotingStatus && constants.AcceleratorProjectVotingPeriod <= 4000 {
			left := p.CreationTimestamp + constants.AcceleratorProjectVotingPeriod - now
			if left < 0 {
				continue // the update that closes it is due anyway
			}
			if h.C.Weighted("ve.really", 2, 1) == 0 {
				return false
			}
			if !h.Produce(int(left/10) + h.C.Int("ve.offset", -1, 2)) {
				return false
			}
			for i := 0; i < int(constants.UpdateMinNumMomentums)+1 && !h.Dead; i++ {
				h.Produce(0)
			}
			return true
		}
	}
	return false
}

// ActTimedPillarRevoke: the owner of an active pillar revokes it inside (or just before / after) its revoke window; the
// momentums up to the window are produced first.
func (h *Hist) ActTimedPillarRevoke() {
	c := h.C
	list, err := definition.GetPillarsList(h.A.Chain.GetFrontierAccountStore(types.PillarContract).Storage(), true, definition.AnyPillarType)
	if err != nil || len(list) == 0 {
		return
	}
	p := list[c.Pick("tr.idx", len(list))]
	if h.W.Keys.ByAddr[p.StakeAddress] == nil {
		return
	}
	cycle := constants.PillarEpochLockTime + constants.PillarEpochRevokeTime
	el := (h.A.Frontier().Timestamp.Unix() - p.RegistrationTime) % cycle
	if el < constants.PillarEpochLockTime {
		// slots of 10 s up to the window, plus a drawn offset that can overshoot it
		skip := int((constants.PillarEpochLockTime-el)/10) + c.Int("tr.offset", -2, 3)
		if skip < 0 {
			skip = 0
		}
		h.Produce(skip)
	}
	h.ActCall(p.StakeAddress, types.PillarContract, types.ZnnTokenStandard, big.NewInt(0),
		definition.ABIPillars.PackMethodPanic(definition.RevokeMethodName, p.Name), "timed pillar.Revoke("+p.Name+")")
}

// ActTimedSentinelRevoke: the owner of an active sentinel revokes it inside (or just before / after) its revoke window.
func (h *Hist) ActTimedSentinelRevoke() {
	c := h.C
	var active []*definition.SentinelInfo
	for _, s := range definition.GetAllSentinelInfo(h.A.Chain.GetFrontierAccountStore(types.SentinelContract).Storage()) {
		if s.RevokeTimestamp == 0 && h.W.Keys.ByAddr[s.Owner] != nil {
			active = append(active, s)
		}
	}
	if len(active) == 0 {
		return
	}
	s := active[c.Pick("tsr.idx", len(active))]
	cycle := constants.SentinelLockTimeWindow + constants.SentinelRevokeTimeWindow
	el := (h.A.Frontier().Timestamp.Unix() - s.RegistrationTimestamp) % cycle
	if el < constants.SentinelLockTimeWindow {
		skip := int((constants.SentinelLockTimeWindow-el)/10) + c.Int("tsr.offset", -2, 3)
		if skip < 0 {
			skip = 0
		}
		h.Produce(skip)
	}
	h.ActCall(s.Owner, types.SentinelContract, types.ZnnTokenStandard, big.NewInt(0),
		definition.ABISentinel.PackMethodPanic(definition.RevokeSentinelMethodName), "timed sentinel.Revoke by "+short(s.Owner))
}

// projectOwner returns the creator of the project whose id is the hash of its creating send.
func (h *Hist) projectOwner(id types.Hash) (types.Address, bool) {
	for _, s := range h.Sends {
		if s.Hash == id {
			return s.Address, true
		}
	}
	return types.Address{}, false
}

func phaseCall(h *Hist, method, pfx string) bool {
	c := h.C
	if len(h.Projects) == 0 {
		return false
	}
	id := h.Projects[c.Pick(pfx+".proj", len(h.Projects))]
	from, ok := h.projectOwner(id)
	if !ok || c.Weighted(pfx+".byOther", 6, 1) == 1 {
		from = h.user(pfx + ".from")
	}
	znn, qsr := zq(int64(c.Int(pfx+".znn", 0, 5000))), zq(int64(c.Int(pfx+".qsr", 0, 50000)))
	if c.Weighted(pfx+".remaining", 2, 1) == 1 {
		// exactly what the project has not received yet (its last phase: the project completes when it is paid),
		// sometimes one unit more
		if pr, err := definition.GetProjectEntry(h.A.Chain.GetFrontierAccountStore(types.AcceleratorContract).Storage(), id); err == nil && pr != nil {
			rz, rq := new(big.Int).Set(pr.ZnnFundsNeeded), new(big.Int).Set(pr.QsrFundsNeeded)
			for _, pid := range pr.PhaseIds {
				if ph, err := definition.GetPhaseEntry(h.A.Chain.GetFrontierAccountStore(types.AcceleratorContract).Storage(), pid); err == nil && ph != nil && ph.Status == definition.PaidStatus {
					rz.Sub(rz, ph.ZnnFundsNeeded)
					rq.Sub(rq, ph.QsrFundsNeeded)
				}
			}
			if rz.Sign() >= 0 && rq.Sign() >= 0 {
				znn, qsr = rz, rq
				if c.Weighted(pfx+".over", 5, 1) == 1 {
					znn = new(big.Int).Add(znn, big.NewInt(1))
				}
				c.Class("phase-for-the-remaining-funds")
			}
		}
	}
	data := definition.ABIAccelerator.PackMethodPanic(method, id, fmt.Sprintf("phase-%d", c.Int(pfx+".n", 0, 9)), "a verif phase", "www.verif.test", znn, qsr)
	return h.call(from, types.AcceleratorContract, types.ZnnTokenStandard, big.NewInt(0), data, fmt.Sprintf("accelerator.%s(%s)", method, id.String()[:8]))
}

// intentAddPhase / intentUpdatePhase: the owner of a project (sometimes someone else) adds or replaces a phase,
// whatever the state of the project (not voted yet, no phase yet, phase paid).
func intentAddPhase(h *Hist) bool { return phaseCall(h, definition.AddPhaseMethodName, "aph") }
func intentUpdatePhase(h *Hist) bool {
	return phaseCall(h, definition.UpdatePhaseMethodName, "uph")
}

// legacySignature signs the swap message of the given kind for `addr` with legacy key i (sometimes for another
// address, with the other kind's message, or with another key).
func legacySignature(h *Hist, pfx string, i int, addr types.Address, pillar bool) (pubB64, sig string, ok bool) {
	c := h.C
	prv, pub := SwapKey(i)
	pubB64 = base64.StdEncoding.EncodeToString(pub)
	signFor, asPillar, signWith := addr, pillar, prv
	switch c.Weighted(pfx+".sigFault", 8, 1, 1, 1) {
	case 1:
		signFor = h.user(pfx + ".sigOther") // a signature made out for another account (observed on the chain, replayed)
	case 2:
		asPillar = !asPillar // the signature of the other operation
	case 3:
		signWith, _ = SwapKey(i + 1)
	}
	var err error
	if asPillar {
		sig, err = implementation.SignLegacyPillarMessage(signFor, signWith, pubB64)
	} else {
		sig, err = implementation.SignRetrieveAssetsMessage(signFor, signWith, pubB64)
	}
	return pubB64, sig, err == nil
}

// intentSwapRetrieve: the holder of a legacy key claims its assets for one of its accounts (again and again).
func intentSwapRetrieve(h *Hist) bool {
	c := h.C
	if len(h.W.Spec.Swap) == 0 {
		return false
	}
	sw := h.W.Spec.Swap[c.Pick("swr.key", len(h.W.Spec.Swap))]
	from := h.user("swr.from")
	pub, sig, ok := legacySignature(h, "swr", sw.Key, from, false)
	if !ok {
		return false
	}
	return h.call(from, types.SwapContract, types.ZnnTokenStandard, big.NewInt(0), definition.ABISwap.PackMethodPanic(definition.RetrieveAssetsMethodName, pub, sig),
		fmt.Sprintf("swap.RetrieveAssets(key %d)", sw.Key))
}

// intentRegisterLegacy: a legacy pillar slot is used (QSR deposited first or not, name free or not).
func intentRegisterLegacy(h *Hist) bool {
	c := h.C
	var with []SwapSpec
	for _, sw := range h.W.Spec.Swap {
		if sw.Pillars > 0 {
			with = append(with, sw)
		}
	}
	if len(with) == 0 {
		return false
	}
	sw := with[c.Pick("prl.key", len(with))]
	from := h.depositor("prl.from", types.PillarContract, constants.PillarQsrStakeBaseAmount)
	if h.Balance(from, types.ZnnTokenStandard).Cmp(constants.PillarStakeAmount) < 0 {
		return false
	}
	pub, sig, ok := legacySignature(h, "prl", sw.Key, from, true)
	if !ok {
		return false
	}
	data := definition.ABIPillars.PackMethodPanic(definition.LegacyRegisterMethodName, fmt.Sprintf("VP-legacy-%d", c.Int("prl.name", 0, 4)), h.user("prl.prod"), h.user("prl.reward"),
		uint8(c.Int("prl.give1", 0, 100)), uint8(c.Int("prl.give2", 0, 100)), pub, sig)
	return h.call(from, types.PillarContract, types.ZnnTokenStandard, new(big.Int).Set(constants.PillarStakeAmount), data, fmt.Sprintf("pillar.RegisterLegacy(key %d)", sw.Key))
}
