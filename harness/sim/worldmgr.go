package sim

import (
	"os"
	"path/filepath"
	"time"

	"github.com/zenon-network/go-zenon/chain/genesis"
	"github.com/zenon-network/go-zenon/chain/store"
	"github.com/zenon-network/go-zenon/common"
	"github.com/zenon-network/go-zenon/common/types"
	"github.com/zenon-network/go-zenon/consensus"
	"github.com/zenon-network/go-zenon/verifier"
	"github.com/zenon-network/go-zenon/vm/constants"
)

// World = one genesis, one key ring, any number of nodes, process globals set and restored.
type World struct {
	Spec    *Spec
	Cfg     *genesis.GenesisConfig
	Gen     store.Genesis
	Keys    *KeyRing
	Nodes   []*Node
	restore []func()
}

// WorldOpts selects the regime of the process-global knobs.
type WorldOpts struct {
	EpochDuration    time.Duration // 0 = leave
	ReceiverGateAt   uint64        // value for verifier.ReceiverMismatchEnforcementHeight (default 0 = enforced from genesis)
	KeepReceiverGate bool          // leave the shipped mainnet value
	FastLocks        bool          // shrink lock windows consistently (DESIGN 3.2b)
	Bridge           bool          // bridge / liquidity administrator = a key of the ring, short delays (values only)
}

func NewWorld(spec *Spec, o WorldOpts) *World {
	Silence()
	w := &World{Spec: spec}
	w.Cfg = spec.Config()
	w.Gen = genesis.NewGenesis(w.Cfg)
	w.Keys = NewKeyRing(len(spec.Pillars), len(spec.Users))
	// pillar keys are indexed by spec.Pillars[i].Key
	w.Keys.Pillars = nil
	for _, p := range spec.Pillars {
		k := PillarKey(p.Key)
		w.Keys.Pillars = append(w.Keys.Pillars, k)
		w.Keys.ByAddr[k.Address] = k
	}
	oldClock := common.Clock
	common.Clock = TheClock
	w.restore = append(w.restore, func() { common.Clock = oldClock })
	TheClock.Set(time.Unix(spec.Timestamp, 0))

	oldGate := verifier.ReceiverMismatchEnforcementHeight
	if !o.KeepReceiverGate {
		verifier.ReceiverMismatchEnforcementHeight = o.ReceiverGateAt
	}
	w.restore = append(w.restore, func() { verifier.ReceiverMismatchEnforcementHeight = oldGate })

	oldEpoch := consensus.EpochDuration
	if o.EpochDuration != 0 {
		consensus.EpochDuration = o.EpochDuration
	}
	w.restore = append(w.restore, func() { consensus.EpochDuration = oldEpoch })

	oldSporkAddr := types.SporkAddress
	w.restore = append(w.restore, func() { types.SporkAddress = oldSporkAddr })

	if o.FastLocks {
		w.restore = append(w.restore, applyFastLocks())
	}
	if o.Bridge {
		w.restore = append(w.restore, ApplyBridgeGlobals())
	}
	return w
}

// applyFastLocks shrinks the time windows (values only, never code paths).
func applyFastLocks() func() {
	oldStake := constants.StakeTimeUnitSec
	oldStakeMin := constants.StakeTimeMinSec
	oldStakeMax := constants.StakeTimeMaxSec
	oldFuse := constants.FuseExpiration
	oldUpd := constants.UpdateMinNumMomentums
	oldPillarLock := constants.PillarEpochLockTime
	oldPillarRevoke := constants.PillarEpochRevokeTime
	oldSentLock := constants.SentinelLockTimeWindow
	oldSentRevoke := constants.SentinelRevokeTimeWindow
	oldRewardLimit := constants.RewardTimeLimit
	oldVoting := constants.AcceleratorProjectVotingPeriod
	oldRewardTick := constants.RewardTickDurationInEpochs
	constants.RewardTickDurationInEpochs = 2 // the emission schedule (11 ZNN / 8 QSR reward ticks) is crossed, its end reached, within a history
	constants.AcceleratorProjectVotingPeriod = 2400 // projects nobody votes for are closed within a history
	constants.StakeTimeUnitSec = 600
	constants.StakeTimeMinSec = constants.StakeTimeUnitSec * 1
	constants.StakeTimeMaxSec = constants.StakeTimeUnitSec * 12
	constants.FuseExpiration = 12
	constants.UpdateMinNumMomentums = 5
	constants.PillarEpochLockTime = 1200
	constants.PillarEpochRevokeTime = 600
	constants.SentinelLockTimeWindow = 1200
	constants.SentinelRevokeTimeWindow = 600
	constants.RewardTimeLimit = 300
	return func() {
		constants.StakeTimeUnitSec = oldStake
		constants.StakeTimeMinSec = oldStakeMin
		constants.StakeTimeMaxSec = oldStakeMax
		constants.FuseExpiration = oldFuse
		constants.UpdateMinNumMomentums = oldUpd
		constants.PillarEpochLockTime = oldPillarLock
		constants.PillarEpochRevokeTime = oldPillarRevoke
		constants.SentinelLockTimeWindow = oldSentLock
		constants.SentinelRevokeTimeWindow = oldSentRevoke
		constants.RewardTimeLimit = oldRewardLimit
		constants.AcceleratorProjectVotingPeriod = oldVoting
		constants.RewardTickDurationInEpochs = oldRewardTick
	}
}

// AddNode starts a node of this world.
func (w *World) AddNode(name string, producer bool) *Node {
	// every node gets its own genesis object: adding the genesis momentum consumes its patch
	n, err := NewNode(genesis.NewGenesis(w.Cfg), w.Keys, NodeOpts{Name: name, Producer: producer})
	if err != nil {
		panic(err)
	}
	w.Nodes = append(w.Nodes, n)
	return n
}

// Replace swaps a restarted node into the world's list.
func (w *World) Replace(old, nw *Node) {
	for i, n := range w.Nodes {
		if n == old {
			w.Nodes[i] = nw
			return
		}
	}
	w.Nodes = append(w.Nodes, nw)
}

// Close stops and removes every node and restores the process globals.
func (w *World) Close() {
	for _, n := range w.Nodes {
		func() {
			defer func() { _ = recover() }()
			n.Destroy()
		}()
	}
	for i := len(w.restore) - 1; i >= 0; i-- {
		w.restore[i]()
	}
}

// CloneStopped starts a new node on a copy of the database directory of a stopped node.
func (w *World) CloneStopped(template *Node, name string) *Node {
	if !template.stopped {
		panic("CloneStopped: template still running")
	}
	dir, err := os.MkdirTemp("", "simclone-")
	if err != nil {
		panic(err)
	}
	entries, err := os.ReadDir(template.Dir)
	if err != nil {
		panic(err)
	}
	for _, e := range entries {
		if e.IsDir() || e.Name() == "LOCK" {
			continue
		}
		data, err := os.ReadFile(filepath.Join(template.Dir, e.Name()))
		if err != nil {
			panic(err)
		}
		if err := os.WriteFile(filepath.Join(dir, e.Name()), data, 0o644); err != nil {
			panic(err)
		}
	}
	n, err := NewNode(genesis.NewGenesis(w.Cfg), w.Keys, NodeOpts{Name: name, Dir: dir})
	if err != nil {
		panic(err)
	}
	w.Nodes = append(w.Nodes, n)
	return n
}

// Drop destroys one node and forgets it.
func (w *World) Drop(n *Node) {
	n.Destroy()
	for i, x := range w.Nodes {
		if x == n {
			w.Nodes = append(w.Nodes[:i], w.Nodes[i+1:]...)
			return
		}
	}
}
