package sim

import (
	"fmt"
	"math/big"

	"github.com/zenon-network/go-zenon/common/types"
	"github.com/zenon-network/go-zenon/vm/embedded/definition"
)

// Liabilities parses, from contract storage at the node's pool frontier, what each embedded
// contract owes per token, and checks the per-beneficiary fused totals.

type Liab map[types.Address]map[types.ZenonTokenStandard]*big.Int

func (l Liab) add(ct types.Address, z types.ZenonTokenStandard, v *big.Int) {
	if v == nil || v.Sign() == 0 {
		return
	}
	if l[ct] == nil {
		l[ct] = map[types.ZenonTokenStandard]*big.Int{}
	}
	if l[ct][z] == nil {
		l[ct][z] = new(big.Int)
	}
	l[ct][z].Add(l[ct][z], v)
}

type fusionVar struct {
	Amount           *big.Int
	ExpirationHeight uint64
	Beneficiary      types.Address
}
type fusedVar struct {
	Amount *big.Int
}

// FusionEntry is one parsed fusion entry.
type FusionEntry struct {
	Owner       types.Address
	Id          types.Hash
	Amount      *big.Int
	Expiration  uint64
	Beneficiary types.Address
}

// AllFusions iterates the raw storage of the plasma contract.
func AllFusions(n *Node) ([]FusionEntry, map[types.Address]*big.Int, error) {
	st := n.Chain.GetFrontierAccountStore(types.PlasmaContract).Storage()
	var out []FusionEntry
	it := st.NewIterator([]byte{1})
	for it.Next() {
		if len(it.Value()) == 0 {
			continue
		}
		k := it.Key()
		if len(k) != 1+types.AddressSize+types.HashSize {
			it.Release()
			return nil, nil, fmt.Errorf("fusion key of length %d", len(k))
		}
		v := new(fusionVar)
		if err := definition.ABIPlasma.UnpackVariable(v, "fusionInfo", it.Value()); err != nil {
			it.Release()
			return nil, nil, err
		}
		e := FusionEntry{Amount: v.Amount, Expiration: v.ExpirationHeight, Beneficiary: v.Beneficiary}
		copy(e.Owner[:], k[1:1+types.AddressSize])
		copy(e.Id[:], k[1+types.AddressSize:])
		out = append(out, e)
	}
	it.Release()
	fused := map[types.Address]*big.Int{}
	it = st.NewIterator([]byte{2})
	for it.Next() {
		if len(it.Value()) == 0 {
			continue
		}
		k := it.Key()
		if len(k) != 1+types.AddressSize {
			continue
		}
		v := new(fusedVar)
		if err := definition.ABIPlasma.UnpackVariable(v, "fusedAmount", it.Value()); err != nil {
			it.Release()
			return nil, nil, err
		}
		var a types.Address
		copy(a[:], k[1:])
		fused[a] = v.Amount
	}
	it.Release()
	return out, fused, nil
}

type htlcVar struct {
	TimeLocked     types.Address
	HashLocked     types.Address
	TokenStandard  types.ZenonTokenStandard
	Amount         *big.Int
	ExpirationTime int64
	HashType       uint8
	KeyMaxSize     uint8
	HashLock       []byte
}

// ComputeLiabilities sums what the contracts owe. depositors: addresses that may hold QSR deposits.
func ComputeLiabilities(n *Node, depositors []types.Address) (Liab, error) {
	l := Liab{}
	znn, qsr := types.ZnnTokenStandard, types.QsrTokenStandard
	// stakes
	st := n.Chain.GetFrontierAccountStore(types.StakeContract).Storage()
	if err := definition.IterateStakeEntries(st, func(s *definition.StakeInfo) error {
		l.add(types.StakeContract, znn, s.Amount)
		return nil
	}); err != nil {
		return nil, err
	}
	// fusions
	fus, _, err := AllFusions(n)
	if err != nil {
		return nil, err
	}
	for _, f := range fus {
		l.add(types.PlasmaContract, qsr, f.Amount)
	}
	// hash time locks
	hs := n.Chain.GetFrontierAccountStore(types.HtlcContract).Storage()
	it := hs.NewIterator([]byte{1})
	for it.Next() {
		if len(it.Value()) == 0 {
			continue
		}
		v := new(htlcVar)
		if err := definition.ABIHtlc.UnpackVariable(v, "htlcInfo", it.Value()); err != nil {
			it.Release()
			return nil, err
		}
		l.add(types.HtlcContract, v.TokenStandard, v.Amount)
	}
	it.Release()
	// pillar collateral and deposits
	ps := n.Chain.GetFrontierAccountStore(types.PillarContract).Storage()
	pillars, err := definition.GetPillarsList(ps, true, definition.AnyPillarType)
	if err != nil {
		return nil, err
	}
	for _, p := range pillars {
		l.add(types.PillarContract, znn, p.Amount)
	}
	ss := n.Chain.GetFrontierAccountStore(types.SentinelContract).Storage()
	for _, s := range definition.GetAllSentinelInfo(ss) {
		if s.RevokeTimestamp == 0 {
			l.add(types.SentinelContract, znn, s.ZnnAmount)
			l.add(types.SentinelContract, qsr, s.QsrAmount)
		}
	}
	for _, d := range depositors {
		d := d
		if dep, err := definition.GetQsrDeposit(ps, &d); err == nil && dep != nil {
			l.add(types.PillarContract, qsr, dep.Qsr)
		}
		if dep, err := definition.GetQsrDeposit(ss, &d); err == nil && dep != nil {
			l.add(types.SentinelContract, qsr, dep.Qsr)
		}
	}
	// liquidity stakes
	ls := n.Chain.GetFrontierAccountStore(types.LiquidityContract).Storage()
	for _, e := range definition.GetAllLiquidityStakeEntries(ls) {
		if e.Amount != nil && e.Amount.Sign() > 0 && e.RevokeTime == 0 {
			l.add(types.LiquidityContract, e.TokenStandard, e.Amount)
		}
	}
	return l, nil
}
