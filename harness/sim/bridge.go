package sim

import (
	"encoding/base64"
	"fmt"
	"math/big"

	ecommon "github.com/ethereum/go-ethereum/common"
	ecrypto "github.com/ethereum/go-ethereum/crypto"

	"github.com/zenon-network/go-zenon/chain/nom"
	"github.com/zenon-network/go-zenon/common/types"
	"github.com/zenon-network/go-zenon/vm/abi"
	"github.com/zenon-network/go-zenon/vm/constants"
	"github.com/zenon-network/go-zenon/vm/embedded/definition"
	"github.com/zenon-network/go-zenon/vm/embedded/implementation"
)

// Bridge / liquidity administration: the administrator address and the time-challenge delays are
// exported variables of the repository (its own bridge tests set them); the harness sets VALUES
// only: an administrator it holds the key of and short delays.

// BridgeAdmin is the administrator of bridge and liquidity in bridge-enabled worlds.
func BridgeAdmin() types.Address { return UserKey(2).Address }

// TssPubKey / TssSign: the secp256k1 key pair of the repository's bridge tests.
const TssPubKey = "AsAQx1M3LVXCuozDOqO5b9adj/PItYgwZFG/xTDBiZzT"

// ApplyBridgeGlobals sets the values and returns the undo function.
func ApplyBridgeGlobals() func() {
	a, b, c, d, e := constants.InitialBridgeAdministrator, constants.MinAdministratorDelay, constants.MinSoftDelay, constants.MinUnhaltDurationInMomentums, constants.MinGuardians
	constants.InitialBridgeAdministrator = BridgeAdmin()
	constants.MinAdministratorDelay = 6
	constants.MinSoftDelay = 3
	constants.MinUnhaltDurationInMomentums = 5
	constants.MinGuardians = 4
	return func() {
		constants.InitialBridgeAdministrator, constants.MinAdministratorDelay, constants.MinSoftDelay, constants.MinUnhaltDurationInMomentums, constants.MinGuardians = a, b, c, d, e
	}
}

// BridgeScript configures the bridge (orchestrator, two networks, guardians, tss key, two token pairs; every
// time-challenged call twice with the delay in between), files wrap requests and signed unwrap requests.
func BridgeScript(h *Hist, wraps, unwraps int) error {
	admin := BridgeAdmin()
	call := func(from types.Address, z types.ZenonTokenStandard, amt int64, descr string, method string, args ...interface{}) error {
		data := definition.ABIBridge.PackMethodPanic(method, args...)
		_, err := h.Submit(&nom.AccountBlock{Address: from, ToAddress: types.BridgeContract, TokenStandard: z, Amount: big.NewInt(amt), Data: data}, "bridge "+descr)
		if err != nil {
			return fmt.Errorf("bridge %s: %v", descr, err)
		}
		return nil
	}
	produce := func(n int) error {
		for i := 0; i < n; i++ {
			if !h.Produce(0) {
				return fmt.Errorf("bridge script: producer stopped")
			}
		}
		return nil
	}
	// sporks declared at genesis are active from their enforcement height on (never at height 1)
	for h.A.Height() < 3 {
		if err := produce(1); err != nil {
			return err
		}
	}
	guardians := []types.Address{UserKey(0).Address, UserKey(1).Address, UserKey(2).Address, UserKey(3).Address, UserKey(4).Address}
	challenged := func() error {
		if err := call(admin, types.ZnnTokenStandard, 0, "nominateGuardians", definition.NominateGuardiansMethodName, guardians); err != nil {
			return err
		}
		if err := call(admin, types.ZnnTokenStandard, 0, "setTokenPair znn", definition.SetTokenPairMethod, uint32(2), uint32(123), types.ZnnTokenStandard,
			"0x5fbdb2315678afecb367f032d93f642f64180aa3", true, true, false, big.NewInt(100), uint32(15), uint32(20), `{"APR": 15}`); err != nil {
			return err
		}
		return produce(2)
	}
	if err := call(admin, types.ZnnTokenStandard, 0, "setOrchestratorInfo", definition.SetOrchestratorInfoMethodName, uint64(6), uint32(3), uint32(15), uint32(10)); err != nil {
		return err
	}
	if err := produce(2); err != nil {
		return err
	}
	if err := call(admin, types.ZnnTokenStandard, 0, "setNetwork eth", definition.SetNetworkMethodName, uint32(2), uint32(123), "Ethereum", "0x323b5d4c32345ced77393b3530b1eed0f346429d", "{}"); err != nil {
		return err
	}
	if err := call(admin, types.ZnnTokenStandard, 0, "setNetwork bsc", definition.SetNetworkMethodName, uint32(2), uint32(124), "BSC", "0x423b5d4c32345ced77393b3530b1eed0f346429d", "{}"); err != nil {
		return err
	}
	if err := produce(2); err != nil {
		return err
	}
	if err := challenged(); err != nil {
		return err
	}
	if err := produce(int(constants.MinAdministratorDelay) + 2); err != nil {
		return err
	}
	if err := challenged(); err != nil {
		return err
	}
	// the tss key needs the guardians; second token pair (one time challenge per method name at a time)
	pair2 := func() error {
		if err := call(admin, types.ZnnTokenStandard, 0, "changeTss", definition.ChangeTssECDSAPubKeyMethodName, TssPubKey, "", ""); err != nil {
			return err
		}
		if err := call(admin, types.ZnnTokenStandard, 0, "setTokenPair qsr", definition.SetTokenPairMethod, uint32(2), uint32(124), types.QsrTokenStandard,
			"0x6fbdb2315678afecb367f032d93f642f64180aa3", true, true, false, big.NewInt(100), uint32(10), uint32(20), `{}`); err != nil {
			return err
		}
		return produce(2)
	}
	if err := pair2(); err != nil {
		return err
	}
	if err := produce(int(constants.MinSoftDelay) + 2); err != nil {
		return err
	}
	if err := pair2(); err != nil {
		return err
	}
	// a third pair for a token the bridge OWNS (wraps burn it, redeems mint it through the token contract) with a short
	// redeem delay: issued by a guardian, handed to the bridge contract, pair set by the administrator (time-challenged)
	if h.C.Weighted("bridge.ownedPair", 1, 1) == 1 {
		if err := ownedPairScript(h, admin, guardians, produce); err != nil {
			h.C.Note("owned pair not set up: %v", err)
			h.C.Class("bridge-owned-pair-incomplete")
		} else {
			h.C.Class("bridge-owned-pair")
		}
	}
	for i := 0; i < wraps; i++ {
		from := guardians[i%len(guardians)]
		z, chain := types.ZnnTokenStandard, uint32(123)
		if i%3 == 2 {
			z, chain = types.QsrTokenStandard, uint32(124)
		}
		if err := call(from, z, int64(1000+i), fmt.Sprintf("wrap %d", i), definition.WrapTokenMethodName, uint32(2), chain, BridgeDestinations[i%len(BridgeDestinations)]); err != nil {
			continue // that account cannot pay (plasma, balance): the configuration stands, the other requests are filed
		}
		if i%4 == 3 {
			if err := produce(1); err != nil {
				return err
			}
		}
	}
	if err := produce(1); err != nil {
		return err
	}
	// unwrap requests signed with the test tss key
	for i := 0; i < unwraps; i++ {
		chain, tokenAddr := uint32(123), "0x5fbdb2315678afecb367f032d93f642f64180aa3"
		if i%3 == 2 {
			chain, tokenAddr = uint32(124), "0x6fbdb2315678afecb367f032d93f642f64180aa3"
		}
		param := &definition.UnwrapTokenParam{NetworkClass: 2, ChainId: chain, TransactionHash: types.NewHash([]byte(fmt.Sprintf("c18-unwrap-%d", i/2))), LogIndex: uint32(i),
			ToAddress: guardians[i%3], TokenAddress: tokenAddr, Amount: big.NewInt(int64(500 + i))}
		msg, err := implementation.GetUnwrapTokenRequestMessage(param)
		if err != nil {
			return err
		}
		sig, err := TssSign(msg)
		if err != nil {
			return err
		}
		if err := call(guardians[(i+1)%len(guardians)], types.ZnnTokenStandard, 0, fmt.Sprintf("unwrap %d", i), definition.UnwrapTokenMethodName, param.NetworkClass, param.ChainId,
			param.TransactionHash, param.LogIndex, param.ToAddress, param.TokenAddress, param.Amount, sig); err != nil {
			continue
		}
		if i%4 == 3 {
			if err := produce(1); err != nil {
				return err
			}
		}
	}
	return produce(2)
}

// OwnedTokenAddress is the foreign-chain address of the bridge-owned token's pair.
const OwnedTokenAddress = "0x7fbdb2315678afecb367f032d93f642f64180aa3"

// issueAndSpread: issuer issues a mintable, burnable token, receives the initial supply and sends a part of it to the others
// (their receives are left to the caller or to the history).
func issueAndSpread(h *Hist, issuer types.Address, others []types.Address, name, symbol string, produce func(int) error) (types.ZenonTokenStandard, error) {
	var zts types.ZenonTokenStandard
	if h.Balance(issuer, types.ZnnTokenStandard).Cmp(constants.TokenIssueAmount) < 0 {
		return zts, fmt.Errorf("issuer cannot pay the issue fee")
	}
	before := map[types.ZenonTokenStandard]bool{}
	for _, t := range h.TokenList() {
		before[t.TokenStandard] = true
	}
	data := definition.ABIToken.PackMethodPanic(definition.IssueMethodName, name, symbol, "verif.test", big.NewInt(1000000), big.NewInt(1000000000), uint8(0), true, true, false)
	if _, err := h.Submit(&nom.AccountBlock{Address: issuer, ToAddress: types.TokenContract, TokenStandard: types.ZnnTokenStandard, Amount: new(big.Int).Set(constants.TokenIssueAmount), Data: data}, "issue token "+symbol); err != nil {
		return zts, err
	}
	if err := produce(3); err != nil {
		return zts, err
	}
	found := false
	for _, t := range h.TokenList() {
		if !before[t.TokenStandard] && t.Owner == issuer && t.TokenSymbol == symbol {
			zts, found = t.TokenStandard, true
		}
	}
	if !found {
		return zts, fmt.Errorf("token not issued")
	}
	for _, hsh := range h.Unreceived(issuer) {
		_, _ = h.Submit(&nom.AccountBlock{BlockType: nom.BlockTypeUserReceive, Address: issuer, FromBlockHash: hsh}, "issuer receives")
	}
	for _, o := range others {
		if o != issuer {
			_, _ = h.Submit(&nom.AccountBlock{Address: issuer, ToAddress: o, TokenStandard: zts, Amount: big.NewInt(100000)}, "spread token "+symbol)
		}
	}
	if err := produce(2); err != nil {
		return zts, err
	}
	for _, o := range others {
		if o != issuer {
			for _, hsh := range h.Unreceived(o) {
				_, _ = h.Submit(&nom.AccountBlock{BlockType: nom.BlockTypeUserReceive, Address: o, FromBlockHash: hsh}, "holder receives")
			}
		}
	}
	h.RefreshPools()
	return zts, nil
}

func ownedPairScript(h *Hist, admin types.Address, guardians []types.Address, produce func(int) error) error {
	issuer := guardians[0]
	zts, err := issueAndSpread(h, issuer, guardians, "Bridge-Owned", "BOWN", produce)
	if err != nil {
		return err
	}
	upd := definition.ABIToken.PackMethodPanic(definition.UpdateTokenMethodName, zts, types.BridgeContract, true, true)
	if _, err := h.Submit(&nom.AccountBlock{Address: issuer, ToAddress: types.TokenContract, TokenStandard: types.ZnnTokenStandard, Amount: big.NewInt(0), Data: upd}, "hand the token to the bridge contract"); err != nil {
		return err
	}
	if err := produce(2); err != nil {
		return err
	}
	delay := uint32([]int{1, 2, 5}[h.C.Pick("bridge.ownedDelay", 3)])
	for i := 0; i < 2; i++ {
		pd := definition.ABIBridge.PackMethodPanic(definition.SetTokenPairMethod, uint32(2), uint32(123), zts, OwnedTokenAddress, true, true, true, big.NewInt(10), uint32(10), delay, `{}`)
		if _, err := h.Submit(&nom.AccountBlock{Address: admin, ToAddress: types.BridgeContract, TokenStandard: types.ZnnTokenStandard, Amount: big.NewInt(0), Data: pd}, "bridge setTokenPair owned"); err != nil {
			return err
		}
		if err := produce(int(constants.MinSoftDelay) + 3); err != nil {
			return err
		}
	}
	h.RefreshPools()
	return nil
}

// BridgePair is a token pair of one of the two networks the scripts configure, as the contract stores it now.
type BridgePair struct {
	ChainId uint32
	definition.TokenPair
}

// BridgePairs reads the configured pairs from the contract's storage at the pool frontier.
func BridgePairs(h *Hist) []BridgePair {
	st := h.A.Chain.GetFrontierAccountStore(types.BridgeContract).Storage()
	var out []BridgePair
	for _, ch := range []uint32{123, 124} {
		ni, err := definition.GetNetworkInfoVariable(st, 2, ch)
		if err != nil || ni == nil {
			continue
		}
		for _, p := range ni.TokenPairs {
			out = append(out, BridgePair{ChainId: ch, TokenPair: p})
		}
	}
	return out
}

// laterPairs: the pairs of other tokens than ZNN and QSR (the bridge-owned token's).
func laterPairs(h *Hist) []BridgePair {
	var out []BridgePair
	for _, p := range BridgePairs(h) {
		if p.TokenStandard != types.ZnnTokenStandard && p.TokenStandard != types.QsrTokenStandard {
			out = append(out, p)
		}
	}
	return out
}

func TssSign(hash []byte) (string, error) {
	raw, err := base64.StdEncoding.DecodeString("tuSwrTEUyJI1/3y5J8L8DSjzT/AQG2IK3JG+93qhhhI=")
	if err != nil {
		return "", err
	}
	key, err := ecrypto.ToECDSA(raw)
	if err != nil {
		return "", err
	}
	sig, err := ecrypto.Sign(hash, key)
	if err != nil {
		return "", err
	}
	return base64.StdEncoding.EncodeToString(sig), nil
}

var BridgeDestinations = []string{"0xb794f5ea0ba39494ce839613fffba74279579268", "0x323b5d4c32345ced77393b3530b1eed0f346429d", "0x0000000000000000000000000000000000000001"}

// LiquidityScript: the administrator nominates guardians and sets the token tuples (ZNN and QSR as
// stakeable tokens), each time-challenged call twice with the delay in between.
func LiquidityScript(h *Hist) error {
	admin := BridgeAdmin()
	call := func(descr string, method string, args ...interface{}) error {
		data := definition.ABILiquidity.PackMethodPanic(method, args...)
		_, err := h.Submit(&nom.AccountBlock{Address: admin, ToAddress: types.LiquidityContract, TokenStandard: types.ZnnTokenStandard, Amount: big.NewInt(0), Data: data}, "liquidity "+descr)
		if err != nil {
			return fmt.Errorf("liquidity %s: %v", descr, err)
		}
		return nil
	}
	produce := func(n int) error {
		for i := 0; i < n; i++ {
			if !h.Produce(0) {
				return fmt.Errorf("liquidity script: producer stopped")
			}
		}
		return nil
	}
	for h.A.Height() < 3 {
		if err := produce(1); err != nil {
			return err
		}
	}
	guardians := []types.Address{UserKey(0).Address, UserKey(1).Address, UserKey(2).Address, UserKey(3).Address, UserKey(4).Address}
	for i := 0; i < 2; i++ {
		if err := call("nominateGuardians", definition.NominateGuardiansMethodName, guardians); err != nil {
			return err
		}
		if err := produce(int(constants.MinAdministratorDelay) + 2); err != nil {
			return err
		}
	}
	// the shares of the stakeable tokens: an even split, an uneven one, or shares of one coin whose sum only equals
	// 10000 modulo 2^32 (whatever the contract accepts here, no epoch may be credited more than its emission)
	znnShares, qsrShares := []uint32{5000, 5000}, []uint32{5000, 5000}
	switch h.C.Weighted("liq.shares", 4, 2, 1, 1) {
	case 1:
		znnShares, qsrShares = []uint32{9999, 1}, []uint32{1, 9999}
	case 2:
		znnShares = []uint32{4294967295, 10001}
	case 3:
		qsrShares = []uint32{10001, 4294967295}
	}
	// the stakeable tokens: ZNN and QSR themselves (accepted by the contract; stakes then share a balance with the reward
	// pool) or, as on the live network, a liquidity-pool token issued for the purpose next to QSR
	stakeable := []string{types.ZnnTokenStandard.String(), types.QsrTokenStandard.String()}
	if h.C.Weighted("liq.lpToken", 1, 1) == 1 {
		if zts, err := issueAndSpread(h, guardians[1], guardians, "Liquidity-Pool", "LPT", produce); err == nil {
			stakeable[0] = zts.String()
			h.C.Class("liquidity-pool-token-stakeable")
		}
	}
	for i := 0; i < 2; i++ {
		if err := call("setTokenTuple", definition.SetTokenTupleMethodName, stakeable,
			znnShares, qsrShares, []*big.Int{big.NewInt(1000), big.NewInt(1000)}); err != nil {
			return err
		}
		if err := produce(int(constants.MinSoftDelay) + 2); err != nil {
			return err
		}
	}
	return nil
}

// UnwrapRecord remembers a signed unwrap request the harness filed.
type UnwrapRecord struct {
	TxHash   types.Hash
	LogIndex uint32
	To       types.Address
	Amount   *big.Int
	Token    types.ZenonTokenStandard
	Send     types.Hash
}

// BridgeFlowIntents: the request flow only (wrap, signed unwrap, redeem around the end of the delay, revoke).
func BridgeFlowIntents() []Intent {
	return []Intent{{"bridge-wrap", intentWrap}, {"bridge-unwrap", intentUnwrap}, {"bridge-unwrap2", intentUnwrap}, {"bridge-timed-redeem", intentTimedRedeem},
		{"bridge-timed-redeem2", intentTimedRedeem}, {"bridge-redeem", intentRedeem}, {"bridge-update-wrap", intentUpdateWrap}, {"bridge-revoke-unwrap", intentRevokeUnwrap}}
}

// ActIntentOf performs one applicable intent of the given list.
func (h *Hist) ActIntentOf(list []Intent, label string) {
	start := h.C.Pick(label, len(list))
	for i := 0; i < len(list); i++ {
		in := list[(start+i)%len(list)]
		if in.Try(h) {
			h.C.Class("intent-" + in.Name)
			return
		}
	}
}

// BridgeIntents are model-guided calls for bridge and liquidity in bridge-enabled worlds.
func BridgeIntents() []Intent {
	return []Intent{
		{"bridge-wrap", intentWrap}, {"bridge-unwrap", intentUnwrap}, {"bridge-redeem", intentRedeem}, {"bridge-revoke-unwrap", intentRevokeUnwrap},
		{"bridge-halt", intentHalt}, {"liquidity-stake", intentLiqStake}, {"liquidity-cancel", intentLiqCancel}, {"liquidity-unlock", intentLiqUnlock},
		{"liquidity-additional-reward", intentLiqReward}, {"liquidity-halt", intentLiqHalt},
		{"bridge-update-wrap", intentUpdateWrap}, {"bridge-signed-halt", intentSignedHalt}, {"bridge-keygen", intentKeyGen},
		{"bridge-admin-misc", intentBridgeAdminMisc},
		{"emergency", intentEmergency}, {"propose-administrator", intentProposeAdmin}, {"propose-administrator2", intentProposeAdmin},
		{"change-administrator", intentChangeAdmin}, {"liquidity-fund", intentLiqFund},
		{"bridge-timed-redeem", intentTimedRedeem}, {"bridge-timed-redeem2", intentTimedRedeem},
		{"guardians-elect-administrator", intentGuardiansElect},
	}
}

func intentWrap(h *Hist) bool {
	c := h.C
	from := h.user("wrap.from")
	z, chain := types.ZnnTokenStandard, uint32(123)
	if c.Bool("wrap.qsr") {
		z, chain = types.QsrTokenStandard, uint32(124)
	}
	if pairs := laterPairs(h); len(pairs) > 0 && c.Bool("wrap.otherPair") {
		p := pairs[c.Pick("wrap.pair", len(pairs))]
		z, chain = p.TokenStandard, p.ChainId
		// somebody who holds the token
		for _, u := range h.Users {
			if h.Balance(u, z).Sign() > 0 {
				from = u
				if c.Bool("wrap.nextHolder") {
					break
				}
			}
		}
	}
	amt := big.NewInt(int64([]int{99, 100, 101, 5000, 100000}[c.Pick("wrap.amt", 5)]))
	if h.Balance(from, z).Cmp(amt) < 0 {
		return false
	}
	return h.call(from, types.BridgeContract, z, amt, definition.ABIBridge.PackMethodPanic(definition.WrapTokenMethodName, uint32(2), chain,
		BridgeDestinations[c.Pick("wrap.dest", len(BridgeDestinations))]), fmt.Sprintf("bridge.WrapToken(chain %d)", chain))
}

func intentUnwrap(h *Hist) bool {
	c := h.C
	chain, tokenAddr, z := uint32(123), "0x5fbdb2315678afecb367f032d93f642f64180aa3", types.ZnnTokenStandard
	if c.Bool("unwrap.qsr") {
		chain, tokenAddr, z = uint32(124), "0x6fbdb2315678afecb367f032d93f642f64180aa3", types.QsrTokenStandard
	}
	if pairs := laterPairs(h); len(pairs) > 0 && c.Bool("unwrap.otherPair") {
		p := pairs[c.Pick("unwrap.pair", len(pairs))]
		chain, tokenAddr, z = p.ChainId, p.TokenAddress, p.TokenStandard
		c.Class("unwrap-of-a-later-pair")
	}
	n := len(h.Unwraps)
	to := h.user("unwrap.to")
	param := &definition.UnwrapTokenParam{NetworkClass: 2, ChainId: chain, TransactionHash: types.NewHash([]byte(fmt.Sprintf("verif-unwrap-%d", n/2))), LogIndex: uint32(n),
		ToAddress: to, TokenAddress: tokenAddr, Amount: big.NewInt(int64([]int{1, 100, 700, 100000}[c.Pick("unwrap.amt", 4)]))}
	msg, err := implementation.GetUnwrapTokenRequestMessage(param)
	if err != nil {
		return false
	}
	sig, err := TssSign(msg)
	if err != nil {
		return false
	}
	if c.Weighted("unwrap.badsig", 6, 1) == 1 {
		// signature over another amount
		p2 := *param
		p2.Amount = new(big.Int).Add(param.Amount, big.NewInt(1))
		if m2, err := implementation.GetUnwrapTokenRequestMessage(&p2); err == nil {
			sig, _ = TssSign(m2)
		}
	}
	from := h.user("unwrap.from")
	b, err := h.Submit(&nom.AccountBlock{Address: from, ToAddress: types.BridgeContract, TokenStandard: types.ZnnTokenStandard, Amount: big.NewInt(0),
		Data: definition.ABIBridge.PackMethodPanic(definition.UnwrapTokenMethodName, param.NetworkClass, param.ChainId, param.TransactionHash, param.LogIndex,
			param.ToAddress, param.TokenAddress, param.Amount, sig)}, fmt.Sprintf("intent bridge.UnwrapToken(%s/%d -> %s, %v) by %s", param.TransactionHash.String()[:8], param.LogIndex, short(to), param.Amount, short(from)))
	if err != nil || b == nil {
		return false
	}
	h.Unwraps = append(h.Unwraps, UnwrapRecord{TxHash: param.TransactionHash, LogIndex: param.LogIndex, To: to, Amount: param.Amount, Token: z, Send: b.Hash})
	return true
}

func intentRedeem(h *Hist) bool {
	if len(h.Unwraps) == 0 {
		return false
	}
	u := h.Unwraps[h.C.Pick("redeem.idx", len(h.Unwraps))]
	from := h.user("redeem.from")
	return h.call(from, types.BridgeContract, types.ZnnTokenStandard, big.NewInt(0), definition.ABIBridge.PackMethodPanic(definition.RedeemUnwrapMethodName, u.TxHash, u.LogIndex),
		fmt.Sprintf("bridge.Redeem(%s/%d)", u.TxHash.String()[:8], u.LogIndex))
}

// intentTimedRedeem: a filed, not yet redeemed or revoked unwrap request is redeemed around the end of its delay
// (the momentums up to then are produced first; the drawn offset lands just before, at, or after the first allowed height).
func intentTimedRedeem(h *Hist) bool {
	c := h.C
	st := h.A.Chain.GetFrontierAccountStore(types.BridgeContract).Storage()
	var open []*definition.UnwrapTokenRequest
	for _, u := range h.Unwraps {
		if r, err := definition.GetUnwrapTokenRequestByTxHashAndLog(st, u.TxHash, u.LogIndex); err == nil && r != nil && r.Redeemed == 0 && r.Revoked == 0 {
			open = append(open, r)
		}
	}
	if len(open) == 0 {
		return false
	}
	r := open[c.Pick("tred.idx", len(open))]
	delay := uint64(0)
	for _, p := range BridgePairs(h) {
		if p.ChainId == r.ChainId && p.TokenAddress == r.TokenAddress {
			delay = uint64(p.RedeemDelay)
		}
	}
	// the receive of the redeem is evaluated at the momentum that confirms the send: frontier+1 at the earliest
	first := r.RegistrationMomentumHeight + delay
	off := c.Int("tred.offset", -2, 1)
	for n := 0; !h.Dead && n < 25 && int64(h.A.Height())+1 < int64(first)+int64(off); n++ {
		if !h.Produce(0) {
			return false
		}
	}
	from := h.user("tred.from")
	ok := h.call(from, types.BridgeContract, types.ZnnTokenStandard, big.NewInt(0), definition.ABIBridge.PackMethodPanic(definition.RedeemUnwrapMethodName, r.TransactionHash, r.LogIndex),
		fmt.Sprintf("bridge.Redeem(%s/%d) timed: registered at %d, delay %d, frontier %d", r.TransactionHash.String()[:8], r.LogIndex, r.RegistrationMomentumHeight, delay, h.A.Height()))
	if ok && c.Bool("tred.again") {
		// and once more in the same or the next momentum
		if c.Bool("tred.nextMomentum") {
			h.Produce(0)
		}
		h.call(h.user("tred.from2"), types.BridgeContract, types.ZnnTokenStandard, big.NewInt(0), definition.ABIBridge.PackMethodPanic(definition.RedeemUnwrapMethodName, r.TransactionHash, r.LogIndex),
			fmt.Sprintf("bridge.Redeem(%s/%d) repeated", r.TransactionHash.String()[:8], r.LogIndex))
	}
	return ok
}

func intentRevokeUnwrap(h *Hist) bool {
	if len(h.Unwraps) == 0 {
		return false
	}
	u := h.Unwraps[h.C.Pick("revoke.idx", len(h.Unwraps))]
	from := BridgeAdmin()
	if h.C.Weighted("revoke.byOther", 3, 1) == 1 {
		from = h.user("revoke.from")
	}
	return h.call(from, types.BridgeContract, types.ZnnTokenStandard, big.NewInt(0), definition.ABIBridge.PackMethodPanic(definition.RevokeUnwrapRequestMethodName, u.TxHash, u.LogIndex),
		fmt.Sprintf("bridge.RevokeUnwrapRequest(%s/%d) by %s", u.TxHash.String()[:8], u.LogIndex, short(from)))
}

func intentHalt(h *Hist) bool {
	from := BridgeAdmin()
	// a halted bridge refuses everything else until it is unhalted and the unhalt duration has passed: not too often
	if st := h.A.Chain.GetFrontierAccountStore(types.BridgeContract).Storage(); st != nil {
		if bi, err := definition.GetBridgeInfoVariable(st); err == nil && bi != nil && !bi.Halted && h.C.Weighted("halt.really", 2, 1) == 0 {
			return false
		}
	}
	if h.C.Bool("halt.unhalt") {
		return h.call(from, types.BridgeContract, types.ZnnTokenStandard, big.NewInt(0), definition.ABIBridge.PackMethodPanic(definition.UnhaltMethodName), "bridge.Unhalt()")
	}
	return h.call(from, types.BridgeContract, types.ZnnTokenStandard, big.NewInt(0), definition.ABIBridge.PackMethodPanic(definition.HaltMethodName, ""), "bridge.Halt()")
}

func intentLiqStake(h *Hist) bool {
	c := h.C
	from := h.user("lstake.from")
	z := []types.ZenonTokenStandard{types.ZnnTokenStandard, types.QsrTokenStandard}[c.Pick("lstake.token", 2)]
	// mostly a token the administrator listed as stakeable
	if li, err := definition.GetLiquidityInfo(h.A.Chain.GetFrontierAccountStore(types.LiquidityContract).Storage()); err == nil && li != nil && len(li.TokenTuples) > 0 && c.Weighted("lstake.listed", 1, 4) == 1 {
		if zz, err := types.ParseZTS(li.TokenTuples[c.Pick("lstake.tuple", len(li.TokenTuples))].TokenStandard); err == nil {
			z = zz
		}
	}
	amt := big.NewInt(int64([]int{999, 1000, 50000, 100000000}[c.Pick("lstake.amt", 4)]))
	if h.Balance(from, z).Cmp(amt) < 0 {
		// somebody who can pay
		found := false
		for _, u := range h.Users {
			if h.Balance(u, z).Cmp(amt) >= 0 {
				from, found = u, true
				break
			}
		}
		if !found {
			return false
		}
	}
	units := int64(c.Int("lstake.units", 1, 12))
	if c.Weighted("lstake.short", 3, 1) == 0 {
		units = 1
	}
	return h.call(from, types.LiquidityContract, z, amt, definition.ABILiquidity.PackMethodPanic(definition.LiquidityStakeMethodName, units*constants.StakeTimeUnitSec),
		fmt.Sprintf("liquidity.LiquidityStake(%d units)", units))
}

func intentLiqCancel(h *Hist) bool {
	c := h.C
	st := h.A.Chain.GetFrontierAccountStore(types.LiquidityContract).Storage()
	all := definition.GetAllLiquidityStakeEntries(st)
	if len(all) == 0 {
		return false
	}
	e := all[c.Pick("lcancel.idx", len(all))]
	from := e.StakeAddress
	if c.Weighted("lcancel.byOther", 5, 1) == 1 || h.W.Keys.ByAddr[from] == nil {
		from = h.user("lcancel.from")
	}
	return h.call(from, types.LiquidityContract, types.ZnnTokenStandard, big.NewInt(0), definition.ABILiquidity.PackMethodPanic(definition.CancelLiquidityStakeMethodName, e.Id),
		fmt.Sprintf("liquidity.CancelLiquidityStake(%s) expires@%d amount=%v owner=%v", e.Id.String()[:8], e.ExpirationTime, e.Amount, from == e.StakeAddress))
}

func intentLiqUnlock(h *Hist) bool {
	from := BridgeAdmin()
	if h.C.Weighted("lunlock.byOther", 2, 1) == 1 {
		from = h.user("lunlock.from")
	}
	return h.call(from, types.LiquidityContract, types.ZnnTokenStandard, big.NewInt(0), definition.ABILiquidity.PackMethodPanic(definition.UnlockLiquidityStakeEntriesMethodName), "liquidity.UnlockLiquidityStakeEntries() by "+short(from))
}

func intentLiqReward(h *Hist) bool {
	c := h.C
	return h.call(BridgeAdmin(), types.LiquidityContract, types.ZnnTokenStandard, big.NewInt(0), definition.ABILiquidity.PackMethodPanic(definition.SetAdditionalRewardMethodName,
		big.NewInt(int64(c.Int("lrew.znn", 0, 1000))), big.NewInt(int64(c.Int("lrew.qsr", 0, 1000)))), "liquidity.SetAdditionalReward()")
}

func intentLiqHalt(h *Hist) bool {
	return h.call(BridgeAdmin(), types.LiquidityContract, types.ZnnTokenStandard, big.NewInt(0), definition.ABILiquidity.PackMethodPanic(definition.SetIsHaltedMethodName, h.C.Weighted("lhalt.on", 2, 1) == 1), "liquidity.SetIsHalted()")
}

// intentUpdateWrap: somebody delivers the orchestrators' signature for a pending wrap request.
func intentUpdateWrap(h *Hist) bool {
	c := h.C
	st := h.A.Chain.GetFrontierAccountStore(types.BridgeContract).Storage()
	reqs, err := definition.GetWrapTokenRequests(st)
	if err != nil || len(reqs) == 0 {
		return false
	}
	r := reqs[c.Pick("uw.idx", len(reqs))]
	ni, err := definition.GetNetworkInfoVariable(st, r.NetworkClass, r.ChainId)
	if err != nil || ni == nil {
		return false
	}
	ca := ecommon.HexToAddress(ni.ContractAddress)
	msg, err := implementation.GetWrapTokenRequestMessage(r, &ca)
	if err != nil {
		return false
	}
	sig, err := TssSign(msg)
	if err != nil {
		return false
	}
	if c.Weighted("uw.badSig", 5, 1) == 1 {
		sig, _ = TssSign(types.NewHash([]byte("another message")).Bytes())
	}
	return h.call(h.user("uw.from"), types.BridgeContract, types.ZnnTokenStandard, big.NewInt(0),
		definition.ABIBridge.PackMethodPanic(definition.UpdateWrapRequestMethodName, r.Id, sig), fmt.Sprintf("bridge.UpdateWrapRequest(%s)", r.Id.String()[:8]))
}

// intentSignedHalt: a non-administrator halts the bridge with the orchestrators' signature over the current nonce.
func intentSignedHalt(h *Hist) bool {
	c := h.C
	st := h.A.Chain.GetFrontierAccountStore(types.BridgeContract).Storage()
	bi, err := definition.GetBridgeInfoVariable(st)
	if err != nil || bi == nil {
		return false
	}
	nonce := bi.TssNonce
	if c.Weighted("sh.staleNonce", 5, 1) == 1 && nonce > 0 {
		nonce--
	}
	msg, err := implementation.GetBasicMethodMessage(definition.HaltMethodName, nonce, definition.NoMClass, h.A.Chain.ChainIdentifier())
	if err != nil {
		return false
	}
	sig, err := TssSign(msg)
	if err != nil {
		return false
	}
	return h.call(h.user("sh.from"), types.BridgeContract, types.ZnnTokenStandard, big.NewInt(0),
		definition.ABIBridge.PackMethodPanic(definition.HaltMethodName, sig), fmt.Sprintf("bridge.Halt(signed, nonce %d)", nonce))
}

// second orchestrator key (secp256k1) for key rotations
var tssKey2Raw = []byte("verif-second-tss-key-32-bytes!!!")

func signWith(raw, hash []byte) (string, error) {
	key, err := ecrypto.ToECDSA(raw)
	if err != nil {
		return "", err
	}
	sig, err := ecrypto.Sign(hash, key)
	if err != nil {
		return "", err
	}
	return base64.StdEncoding.EncodeToString(sig), nil
}

// intentKeyGen: the administrator allows a key generation, or a non-administrator rotates the orchestrators' key
// with signatures of the old and the new key (back and forth between the two keys the harness holds).
func intentKeyGen(h *Hist) bool {
	c := h.C
	st := h.A.Chain.GetFrontierAccountStore(types.BridgeContract).Storage()
	bi, err := definition.GetBridgeInfoVariable(st)
	if err != nil || bi == nil {
		return false
	}
	if !bi.AllowKeyGen || c.Weighted("kg.allowAnyway", 4, 1) == 1 {
		return h.call(BridgeAdmin(), types.BridgeContract, types.ZnnTokenStandard, big.NewInt(0),
			definition.ABIBridge.PackMethodPanic(definition.SetAllowKeygenMethodName, c.Weighted("kg.allow", 1, 4) == 1), "bridge.SetAllowKeyGen()")
	}
	raw1, _ := base64.StdEncoding.DecodeString("tuSwrTEUyJI1/3y5J8L8DSjzT/AQG2IK3JG+93qhhhI=")
	oldRaw, newRaw := raw1, tssKey2Raw
	if bi.CompressedTssECDSAPubKey != TssPubKey {
		oldRaw, newRaw = tssKey2Raw, raw1
	}
	nk, err := ecrypto.ToECDSA(newRaw)
	if err != nil {
		return false
	}
	newPub := base64.StdEncoding.EncodeToString(ecrypto.CompressPubkey(&nk.PublicKey))
	msg, err := implementation.GetChangePubKeyMessage(definition.ChangeTssECDSAPubKeyMethodName, definition.NoMClass, h.A.Chain.ChainIdentifier(), bi.TssNonce, newPub)
	if err != nil {
		return false
	}
	oldSig, err1 := signWith(oldRaw, msg)
	newSig, err2 := signWith(newRaw, msg)
	if err1 != nil || err2 != nil {
		return false
	}
	switch c.Weighted("kg.fault", 6, 1, 1) {
	case 1:
		oldSig = newSig
	case 2:
		newSig = oldSig
	}
	return h.call(h.user("kg.from"), types.BridgeContract, types.ZnnTokenStandard, big.NewInt(0),
		definition.ABIBridge.PackMethodPanic(definition.ChangeTssECDSAPubKeyMethodName, newPub, oldSig, newSig), "bridge.ChangeTssECDSAPubKey(signed rotation)")
}

// intentBridgeAdminMisc: administrator calls the scripts do not make.
func intentBridgeAdminMisc(h *Hist) bool {
	c := h.C
	admin := BridgeAdmin()
	var data []byte
	var descr string
	switch c.Pick("bam.kind", 6) {
	case 0:
		data, descr = definition.ABIBridge.PackMethodPanic("SetRedeemDelay", uint64(c.Int("bam.delay", 0, 8))), "bridge.SetRedeemDelay"
	case 1:
		data, descr = definition.ABIBridge.PackMethodPanic(definition.SetBridgeMetadataMethodName, []string{`{}`, `{"a":1}`, `not json`, ``}[c.Pick("bam.meta", 4)]), "bridge.SetBridgeMetadata"
	case 2:
		data, descr = definition.ABIBridge.PackMethodPanic(definition.SetNetworkMetadataMethodName, uint32(2), uint32([]int{123, 124, 999}[c.Pick("bam.net", 3)]), `{"k":"v"}`), "bridge.SetNetworkMetadata"
	case 3:
		data, descr = definition.ABIBridge.PackMethodPanic(definition.RemoveTokenPairMethodName, uint32(2), uint32([]int{123, 124}[c.Pick("bam.net", 2)]),
			[]types.ZenonTokenStandard{types.ZnnTokenStandard, types.QsrTokenStandard}[c.Pick("bam.tok", 2)],
			[]string{"0x5fbdb2315678afecb367f032d93f642f64180aa3", "0x6fbdb2315678afecb367f032d93f642f64180aa3"}[c.Pick("bam.addr", 2)]), "bridge.RemoveTokenPair"
	case 4:
		if c.Weighted("bam.really", 3, 1) == 0 {
			return false
		}
		data, descr = definition.ABIBridge.PackMethodPanic(definition.RemoveNetworkMethodName, uint32(2), uint32([]int{123, 124}[c.Pick("bam.net", 2)])), "bridge.RemoveNetwork"
	default:
		data, descr = definition.ABIBridge.PackMethodPanic(definition.SetOrchestratorInfoMethodName, uint64(c.Int("bam.window", 1, 10)), uint32(c.Int("bam.keygen", 1, 6)),
			uint32(c.Int("bam.confZnn", 0, 20)), uint32(c.Int("bam.estimated", 0, 12))), "bridge.SetOrchestratorInfo"
	}
	return h.call(admin, types.BridgeContract, types.ZnnTokenStandard, big.NewInt(0), data, descr)
}

func adminContract(h *Hist, label string) (types.Address, abi.ABIContract) {
	if h.C.Bool(label) {
		return types.LiquidityContract, definition.ABILiquidity
	}
	return types.BridgeContract, definition.ABIBridge
}

// currentAdmin reads the administrator a contract records (zero = emergency).
func currentAdmin(h *Hist, ct types.Address) types.Address {
	st := h.A.Chain.GetFrontierAccountStore(ct).Storage()
	if ct == types.BridgeContract {
		if bi, err := definition.GetBridgeInfoVariable(st); err == nil && bi != nil {
			return bi.Administrator
		}
	} else if li, err := definition.GetLiquidityInfo(st); err == nil && li != nil {
		return li.Administrator
	}
	return BridgeAdmin()
}

// intentEmergency: the administrator gives up the contract (rarely: every administrator call fails afterwards until
// the guardians have elected a new one).
func intentEmergency(h *Hist) bool {
	ct, ab := adminContract(h, "em.liquidity")
	if h.C.Weighted("em.really", 5, 1) == 0 {
		return false
	}
	from := currentAdmin(h, ct)
	if h.W.Keys.ByAddr[from] == nil {
		from = h.user("em.from")
	}
	return h.call(from, ct, types.ZnnTokenStandard, big.NewInt(0), ab.PackMethodPanic(definition.EmergencyMethodName), ContractNames[ct]+".Emergency()")
}

// intentProposeAdmin: a guardian (or somebody else) proposes an administrator; a majority elects it in an emergency.
func intentProposeAdmin(h *Hist) bool {
	c := h.C
	ct, ab := adminContract(h, "pa.liquidity")
	from := UserKey(c.Int("pa.guardian", 0, 4)).Address
	if c.Weighted("pa.byOther", 6, 1) == 1 {
		from = h.user("pa.from")
	}
	who := BridgeAdmin()
	if c.Weighted("pa.other", 3, 1) == 1 {
		who = h.user("pa.who")
	}
	return h.call(from, ct, types.ZnnTokenStandard, big.NewInt(0), ab.PackMethodPanic(definition.ProposeAdministratorMethodName, who),
		fmt.Sprintf("%s.ProposeAdministrator(%s) by %s", ContractNames[ct], short(who), short(from)))
}

// intentGuardiansElect: a contract in emergency (no administrator) gets a new one: the guardians, one after the other,
// propose the same account (a drawn number of them, so that the majority is missed by one, met exactly, or exceeded).
func intentGuardiansElect(h *Hist) bool {
	c := h.C
	ct, ab := adminContract(h, "ge.liquidity")
	if a := currentAdmin(h, ct); !a.IsZero() {
		return false
	}
	who := []types.Address{BridgeAdmin(), UserKey(3).Address}[c.Pick("ge.who", 2)]
	n := c.Int("ge.votes", 2, 5)
	ok := false
	for i := 0; i < n; i++ {
		if h.call(UserKey(i).Address, ct, types.ZnnTokenStandard, big.NewInt(0), ab.PackMethodPanic(definition.ProposeAdministratorMethodName, who),
			fmt.Sprintf("%s.ProposeAdministrator(%s) by guardian %d of a contract in emergency", ContractNames[ct], short(who), i)) {
			ok = true
		}
	}
	return ok
}

// intentChangeAdmin: the administrator hands over to another key of the ring (time-challenged: sent again later).
func intentChangeAdmin(h *Hist) bool {
	c := h.C
	ct, ab := adminContract(h, "ca.liquidity")
	if c.Weighted("ca.really", 3, 1) == 0 {
		return false
	}
	from := currentAdmin(h, ct)
	if h.W.Keys.ByAddr[from] == nil {
		return false
	}
	to := []types.Address{BridgeAdmin(), UserKey(3).Address}[c.Pick("ca.to", 2)]
	return h.call(from, ct, types.ZnnTokenStandard, big.NewInt(0), ab.PackMethodPanic(definition.ChangeAdministratorMethodName, to),
		fmt.Sprintf("%s.ChangeAdministrator(%s)", ContractNames[ct], short(to)))
}

// intentLiqFund: the spork key moves liquidity funds to the accelerator or burns ZNN of the contract.
func intentLiqFund(h *Hist) bool {
	c := h.C
	from := h.W.Keys.Spork.Address
	zb, qb := h.Balance(types.LiquidityContract, types.ZnnTokenStandard), h.Balance(types.LiquidityContract, types.QsrTokenStandard)
	pick := func(label string, bal *big.Int) *big.Int {
		return []*big.Int{big.NewInt(0), big.NewInt(1), new(big.Int).Rsh(bal, 1), new(big.Int).Set(bal), new(big.Int).Add(bal, big.NewInt(1))}[c.Pick(label, 5)]
	}
	if c.Bool("lf.burn") {
		return h.call(from, types.LiquidityContract, types.ZnnTokenStandard, big.NewInt(0), definition.ABILiquidity.PackMethodPanic(definition.BurnZnnMethodName, pick("lf.burnAmt", zb)), "liquidity.BurnZnn()")
	}
	return h.call(from, types.LiquidityContract, types.ZnnTokenStandard, big.NewInt(0), definition.ABILiquidity.PackMethodPanic(definition.FundMethodName, pick("lf.znn", zb), pick("lf.qsr", qb)), "liquidity.Fund()")
}
