package sim

import (
	"fmt"
	"math/big"

	"github.com/ethereum/go-ethereum/rlp"

	"github.com/zenon-network/go-zenon/chain/nom"
	"github.com/zenon-network/go-zenon/common/types"
	"github.com/zenon-network/go-zenon/wallet"
)

// CopyDetailed deep-copies a detailed momentum through the wire codec.
func CopyDetailed(d *nom.DetailedMomentum) *nom.DetailedMomentum {
	data, err := rlp.EncodeToBytes(d)
	if err != nil {
		panic(err)
	}
	out := new(nom.DetailedMomentum)
	if err := rlp.DecodeBytes(data, out); err != nil {
		panic(err)
	}
	out.Momentum.EnsureCache()
	return out
}

// Resign recomputes the hash of m and signs it with kp.
func Resign(m *nom.Momentum, kp *wallet.KeyPair) {
	m.Hash = m.ComputeHash()
	sig, _, pub, err := kp.Signer(m.Hash.Bytes())
	if err != nil {
		panic(err)
	}
	m.Signature = sig
	m.PublicKey = pub
}

// ResignBlock recomputes the hash of b and signs it with kp.
func ResignBlock(b *nom.AccountBlock, kp *wallet.KeyPair) {
	b.Hash = b.ComputeHash()
	sig, _, pub, err := kp.Signer(b.Hash.Bytes())
	if err != nil {
		panic(err)
	}
	b.Signature = sig
	b.PublicKey = pub
}

// MomentumFaults lists the fault kinds InjectFault knows.
var MomentumFaults = []string{"bad-signature", "non-elected-producer", "wrong-changes-hash", "wrong-hash", "missing-account-block",
	"extra-account-block", "listed-orphan-contract-send", "mutated-account-block", "resigned-account-block", "retimed", "wrong-previous", "data-not-empty",
	"wrong-chain-id", "content-reordered"}

// CertainFaults are the kinds that make an honest momentum invalid whatever the state
// ("retimed" and "content-reordered" can yield another valid momentum).
var CertainFaults = []string{"bad-signature", "non-elected-producer", "wrong-changes-hash", "wrong-hash", "missing-account-block",
	"extra-account-block", "listed-orphan-contract-send", "mutated-account-block", "resigned-account-block", "wrong-previous", "data-not-empty", "wrong-chain-id"}

// InjectFault returns a faulty copy of d, or nil if the kind does not apply to d.
// keys: the world's key ring (the harness holds every key, so re-signed variants are possible).
// extra: a valid account block that is not part of d (for extra-account-block).
func InjectFault(d *nom.DetailedMomentum, kind string, keys *KeyRing, extra *nom.AccountBlock) *nom.DetailedMomentum {
	f := CopyDetailed(d)
	m := f.Momentum
	producer := keys.ByAddr[m.Producer()]
	switch kind {
	case "bad-signature":
		m.Signature[len(m.Signature)/2] ^= 0x40
	case "non-elected-producer":
		var other *wallet.KeyPair
		for _, k := range keys.Pillars {
			if k.Address != m.Producer() {
				other = k
				break
			}
		}
		if other == nil {
			other = keys.Users[0]
		}
		Resign(m, other)
	case "wrong-changes-hash":
		if producer == nil {
			return nil
		}
		m.ChangesHash = types.NewHash(append([]byte("x"), m.ChangesHash.Bytes()...))
		Resign(m, producer)
	case "wrong-hash":
		m.Hash = types.NewHash(m.Hash.Bytes())
	case "missing-account-block":
		if len(f.AccountBlocks) == 0 {
			return nil
		}
		f.AccountBlocks = f.AccountBlocks[1:]
	case "extra-account-block":
		if extra == nil {
			return nil
		}
		f.AccountBlocks = append(f.AccountBlocks, extra.Copy())
	case "listed-orphan-contract-send":
		// the momentum's content names a send of a contract that no contract receive generated; the block itself is
		// delivered alongside (content and blocks match), hash and signature by the momentum's own producer are right
		if producer == nil {
			return nil
		}
		orphan := &nom.AccountBlock{Version: 1, ChainIdentifier: m.ChainIdentifier, BlockType: nom.BlockTypeContractSend, Address: types.PlasmaContract,
			ToAddress: producer.Address, Height: 1 << 20, PreviousHash: types.NewHash([]byte("orphan-previous")), TokenStandard: types.QsrTokenStandard,
			Amount: big.NewInt(1000000), Data: []byte{}, MomentumAcknowledged: m.Previous()}
		orphan.Hash = orphan.ComputeHash()
		f.AccountBlocks = append(f.AccountBlocks, orphan)
		m.Content = nom.NewMomentumContent(f.AccountBlocks)
		Resign(m, producer)
	case "mutated-account-block":
		idx := -1
		for i, b := range f.AccountBlocks {
			if b.BlockType == nom.BlockTypeUserSend {
				idx = i
				break
			}
		}
		if idx < 0 {
			return nil
		}
		f.AccountBlocks[idx].Amount = new(big.Int).Add(f.AccountBlocks[idx].Amount, big.NewInt(1))
	case "resigned-account-block":
		// a different, correctly signed block in place of the one the momentum commits to
		idx := -1
		for i, b := range f.AccountBlocks {
			if b.BlockType == nom.BlockTypeUserSend && keys.ByAddr[b.Address] != nil {
				idx = i
				break
			}
		}
		if idx < 0 {
			return nil
		}
		b := f.AccountBlocks[idx]
		b.Data = append(append([]byte{}, b.Data...), 0x01)
		ResignBlock(b, keys.ByAddr[b.Address])
	case "retimed":
		if producer == nil {
			return nil
		}
		m.TimestampUnix += 10
		m.Timestamp = nil
		m.EnsureCache()
		Resign(m, producer)
	case "wrong-previous":
		if producer == nil {
			return nil
		}
		m.PreviousHash = types.NewHash(m.PreviousHash.Bytes())
		Resign(m, producer)
	case "data-not-empty":
		if producer == nil {
			return nil
		}
		m.Data = []byte{1}
		Resign(m, producer)
	case "wrong-chain-id":
		if producer == nil {
			return nil
		}
		m.ChainIdentifier++
		Resign(m, producer)
	case "content-reordered":
		if producer == nil || len(m.Content) < 2 {
			return nil
		}
		m.Content[0], m.Content[len(m.Content)-1] = m.Content[len(m.Content)-1], m.Content[0]
		Resign(m, producer)
	default:
		panic(fmt.Sprintf("unknown fault %q", kind))
	}
	// what reaches the node went through the codec
	return CopyDetailed(f)
}
