package sim

import (
	"encoding/base64"
	"encoding/hex"
	"fmt"
	"math/big"
	"reflect"
	"sort"
	"strings"

	"github.com/zenon-network/go-zenon/common/types"
	"github.com/zenon-network/go-zenon/vm/abi"
	"github.com/zenon-network/go-zenon/vm/embedded/definition"

	"verifharness/pbt"
)

// Contracts maps every embedded contract to its ABI definition.
var Contracts = map[types.Address]abi.ABIContract{
	types.PlasmaContract:      definition.ABIPlasma,
	types.PillarContract:      definition.ABIPillars,
	types.TokenContract:       definition.ABIToken,
	types.SentinelContract:    definition.ABISentinel,
	types.SwapContract:        definition.ABISwap,
	types.StakeContract:       definition.ABIStake,
	types.SporkContract:       definition.ABISpork,
	types.LiquidityContract:   definition.ABILiquidity,
	types.AcceleratorContract: definition.ABIAccelerator,
	types.HtlcContract:        definition.ABIHtlc,
	types.BridgeContract:      definition.ABIBridge,
}

var ContractNames = map[types.Address]string{
	types.PlasmaContract: "plasma", types.PillarContract: "pillar", types.TokenContract: "token",
	types.SentinelContract: "sentinel", types.SwapContract: "swap", types.StakeContract: "stake",
	types.SporkContract: "spork", types.LiquidityContract: "liquidity", types.AcceleratorContract: "accelerator",
	types.HtlcContract: "htlc", types.BridgeContract: "bridge",
}

// ContractList is Contracts' key set in a fixed order.
var ContractList = func() []types.Address {
	var l []types.Address
	for a := range Contracts {
		l = append(l, a)
	}
	sort.Slice(l, func(i, j int) bool { return ContractNames[l[i]] < ContractNames[l[j]] })
	return l
}()

// MethodNames returns the method names of a contract in a fixed order.
func MethodNames(a types.Address) []string {
	var names []string
	for n := range Contracts[a].Methods {
		names = append(names, n)
	}
	sort.Strings(names)
	return names
}

// Pools are the world-derived value pools argument generation draws from.
type Pools struct {
	Addrs   []types.Address
	Hashes  []types.Hash
	Tokens  []types.ZenonTokenStandard
	Strings []string
}

var bigBoundaries = func() []*big.Int {
	one := big.NewInt(1)
	p255 := new(big.Int).Lsh(one, 255)
	p256 := new(big.Int).Lsh(one, 256)
	return []*big.Int{big.NewInt(0), big.NewInt(1), big.NewInt(2), big.NewInt(Zexp), big.NewInt(10 * Zexp), big.NewInt(5000 * Zexp),
		big.NewInt(15000 * Zexp), new(big.Int).SetUint64(1<<63 - 1), new(big.Int).SetUint64(1 << 63), new(big.Int).SetUint64(^uint64(0)),
		new(big.Int).Lsh(one, 64), new(big.Int).Sub(p255, one), p255, new(big.Int).Sub(p256, one)}
}()

var uintBoundaries = []uint64{0, 1, 2, 3, 10, 100, 255, 256, 600, 3600, 30 * 24 * 3600, 1<<31 - 1, 1 << 31, 1<<32 - 1, 1 << 32, 1<<63 - 1, 1 << 63, ^uint64(0)}

// GenArg draws one value of ABI type t (layer 1: typed boundary values).
func GenArg(c *pbt.C, p *Pools, t abi.Type, label string) reflect.Value {
	switch t.T {
	case abi.SliceTy:
		n := c.Weighted(label+".n", 3, 3, 2, 1, 1)
		if n == 4 {
			n = c.Int(label+".nbig", 5, 40)
		}
		s := reflect.MakeSlice(t.Type, n, n)
		for i := 0; i < n; i++ {
			s.Index(i).Set(GenArg(c, p, *t.Elem, label+".e"))
		}
		return s
	case abi.ArrayTy:
		a := reflect.New(t.Type).Elem()
		for i := 0; i < a.Len(); i++ {
			a.Index(i).Set(GenArg(c, p, *t.Elem, label+".e"))
		}
		return a
	case abi.StringTy:
		switch c.Weighted(label+".skind", 4, 1, 1, 1, 1, 1) {
		case 0:
			if len(p.Strings) > 0 {
				return reflect.ValueOf(p.Strings[c.Pick(label+".spool", len(p.Strings))])
			}
			return reflect.ValueOf("name-" + fmt.Sprint(c.Int(label+".sn", 0, 9)))
		case 1:
			return reflect.ValueOf("")
		case 2:
			return reflect.ValueOf(strings.Repeat("x", c.Int(label+".slen", 1, 130)))
		case 3:
			return reflect.ValueOf("ünï-ço∂é-" + fmt.Sprint(c.Int(label+".sn", 0, 9)))
		case 4:
			return reflect.ValueOf(string(c.Bytes(label+".sraw", 0, 48)))
		default:
			return reflect.ValueOf(strings.Repeat("Z", c.Int(label+".slong", 200, 1200)))
		}
	case abi.BytesTy:
		switch c.Weighted(label+".bkind", 2, 2, 1, 1) {
		case 0:
			return reflect.ValueOf([]byte{})
		case 1:
			return reflect.ValueOf(c.Bytes(label+".b", 1, 40))
		case 2:
			return reflect.ValueOf(make([]byte, []int{32, 33, 64, 65, 255, 256}[c.Pick(label+".blen", 6)]))
		default:
			return reflect.ValueOf(c.Bytes(label+".b", 200, 400))
		}
	case abi.FixedBytesTy:
		a := reflect.New(t.Type).Elem()
		b := c.Bytes(label+".fb", a.Len(), a.Len())
		for i := 0; i < a.Len(); i++ {
			a.Index(i).SetUint(uint64(b[i]))
		}
		return a
	case abi.BoolTy:
		return reflect.ValueOf(c.Bool(label + ".bool"))
	case abi.AddressTy:
		if len(p.Addrs) > 0 && c.Weighted(label+".akind", 6, 1) == 0 {
			return reflect.ValueOf(p.Addrs[c.Pick(label+".a", len(p.Addrs))])
		}
		var a types.Address
		copy(a[:], c.Bytes(label+".araw", 20, 20))
		return reflect.ValueOf(a)
	case abi.HashTy:
		if len(p.Hashes) > 0 && c.Weighted(label+".hkind", 5, 1) == 0 {
			return reflect.ValueOf(p.Hashes[c.Pick(label+".h", len(p.Hashes))])
		}
		if c.Bool(label + ".hzero") {
			return reflect.ValueOf(types.ZeroHash)
		}
		return reflect.ValueOf(types.NewHash(c.Bytes(label+".hraw", 1, 4)))
	case abi.TokenStandardTy:
		if len(p.Tokens) > 0 && c.Weighted(label+".tkind", 6, 1) == 0 {
			return reflect.ValueOf(p.Tokens[c.Pick(label+".t", len(p.Tokens))])
		}
		var z types.ZenonTokenStandard
		copy(z[:], c.Bytes(label+".traw", 10, 10))
		return reflect.ValueOf(z)
	case abi.IntTy, abi.UintTy:
		if t.Type == reflect.TypeOf(&big.Int{}) {
			if c.Weighted(label+".ikind", 3, 1) == 0 {
				v := new(big.Int).Set(bigBoundaries[c.Pick(label+".ibig", len(bigBoundaries))])
				if t.T == abi.IntTy && c.Bool(label+".ineg") {
					v.Neg(v)
				}
				return reflect.ValueOf(v)
			}
			return reflect.ValueOf(new(big.Int).SetUint64(c.Uint64(label+".iu", 0, ^uint64(0))))
		}
		v := reflect.New(t.Type).Elem()
		var x uint64
		if c.Weighted(label+".ikind", 3, 1) == 0 {
			x = uintBoundaries[c.Pick(label+".ib", len(uintBoundaries))]
		} else {
			x = c.Uint64(label+".iu", 0, ^uint64(0))
		}
		if t.T == abi.IntTy {
			v.SetInt(int64(x))
		} else {
			v.SetUint(x)
		}
		return v
	}
	panic(fmt.Sprintf("abigen: unsupported type %v", t))
}

// genArgNamed: string parameters that carry an encoding (base64 keys and signatures, hex addresses of other
// networks) get well-formed encodings of hostile content part of the time; everything else is GenArg.
func genArgNamed(c *pbt.C, p *Pools, t abi.Type, name, label string) reflect.Value {
	if t.T != abi.StringTy || c.Weighted(label+".enc", 3, 2) == 0 {
		return GenArg(c, p, t, label)
	}
	lname := strings.ToLower(name)
	kind := c.Pick(label+".enc.kind", 3) // base64 key, base64 signature, hex
	switch {
	case strings.Contains(lname, "pubkey"):
		kind = c.Weighted(label+".enc.bias", 5, 1, 1)
	case strings.Contains(lname, "signature"):
		kind = []int{1, 1, 1, 0, 2}[c.Pick(label+".enc.bias", 5)]
	case strings.Contains(lname, "address"):
		kind = []int{2, 2, 2, 0, 1}[c.Pick(label+".enc.bias", 5)]
	}
	body := func(n int) []byte {
		b := make([]byte, n)
		switch c.Weighted(label+".enc.fill", 3, 1, 1) {
		case 0:
			copy(b, c.Bytes(label+".enc.raw", n, n))
		case 1:
			for i := range b {
				b[i] = 0xff
			}
		}
		return b
	}
	switch kind {
	case 0:
		n := []int{33, 33, 33, 32, 34, 65, 0}[c.Pick(label+".enc.klen", 7)]
		b := body(n)
		if n > 0 {
			b[0] = []byte{2, 3, 4, 0, b[0]}[c.Pick(label+".enc.first", 5)]
		}
		return reflect.ValueOf(base64.StdEncoding.EncodeToString(b))
	case 1:
		n := []int{65, 65, 65, 64, 66, 0}[c.Pick(label+".enc.slen", 6)]
		b := body(n)
		if n == 65 {
			b[64] = []byte{0, 1, 27, 28, 4, b[64]}[c.Pick(label+".enc.v", 6)]
		}
		return reflect.ValueOf(base64.StdEncoding.EncodeToString(b))
	default:
		n := []int{20, 20, 20, 19, 21, 32, 0}[c.Pick(label+".enc.hlen", 7)]
		hx := hex.EncodeToString(body(n))
		switch c.Pick(label+".enc.hform", 3) {
		case 0:
			hx = "0x" + hx
		case 1:
			hx = "0X" + strings.ToUpper(hx)
		}
		return reflect.ValueOf(hx)
	}
}

// GenCallData draws call data for a method of contract addr.
// layer: 0 typed boundary values (canonical packing), 1 non-canonical re-encoding of a packing,
// 2 raw bytes after a valid selector.
func GenCallData(c *pbt.C, p *Pools, addr types.Address, method string, layer int) ([]byte, string) {
	ab := Contracts[addr]
	m := ab.Methods[method]
	args := make([]interface{}, len(m.Inputs))
	descr := make([]string, len(m.Inputs))
	for i, in := range m.Inputs {
		v := genArgNamed(c, p, in.Type, in.Name, "arg"+fmt.Sprint(i)).Interface()
		args[i] = v
		descr[i] = shortVal(v)
	}
	data, err := ab.PackMethod(method, args...)
	if err != nil {
		// packing refuses some values (e.g. negative into uint): fall back to selector + raw words
		data = append(m.Id(), c.Bytes("rawargs", 0, 96)...)
		return data, fmt.Sprintf("%s.%s(<raw %d bytes; pack error %v>)", ContractNames[addr], method, len(data)-4, err)
	}
	d := fmt.Sprintf("%s.%s(%s)", ContractNames[addr], method, strings.Join(descr, ", "))
	switch layer {
	case 1:
		data = MutatePacking(c, data)
		d += " [re-encoded]"
	case 2:
		data = append(append([]byte{}, data[:4]...), c.Bytes("rawargs", 0, 200)...)
		d = fmt.Sprintf("%s.%s(<raw %d bytes>)", ContractNames[addr], method, len(data)-4)
	}
	return data, d
}

// MutatePacking re-encodes a canonical packing non-canonically.
func MutatePacking(c *pbt.C, data []byte) []byte {
	out := append([]byte{}, data...)
	switch c.Weighted("mut.kind", 3, 3, 2, 2, 2, 1) {
	case 0: // trailing bytes
		out = append(out, c.Bytes("mut.trail", 1, 64)...)
	case 1: // dirty a padding/upper byte of some word
		if len(out) >= 36 {
			words := (len(out) - 4) / 32
			w := c.Pick("mut.word", words)
			off := 4 + 32*w + c.Int("mut.byte", 0, 31)
			out[off] ^= byte(c.Int("mut.xor", 1, 255))
		}
	case 2: // truncate
		if len(out) > 4 {
			out = out[:c.Int("mut.cut", 4, len(out)-1)]
		}
	case 3: // overwrite one whole word with a boundary value (offsets/lengths become hostile)
		if len(out) >= 36 {
			words := (len(out) - 4) / 32
			w := c.Pick("mut.word", words)
			v := bigBoundaries[c.Pick("mut.val", len(bigBoundaries))]
			b := v.Bytes()
			word := make([]byte, 32)
			copy(word[32-len(b):], b)
			copy(out[4+32*w:], word)
		}
	case 4: // duplicate a word (shifts everything after it)
		if len(out) >= 36 {
			words := (len(out) - 4) / 32
			w := c.Pick("mut.word", words)
			word := append([]byte{}, out[4+32*w:4+32*w+32]...)
			out = append(out[:4+32*w], append(word, out[4+32*w:]...)...)
		}
	default: // selector only / selector + 1 byte
		out = out[:4]
		if c.Bool("mut.plus1") {
			out = append(out, 0)
		}
	}
	return out
}

func shortVal(v interface{}) string {
	switch x := v.(type) {
	case string:
		if len(x) > 24 {
			return fmt.Sprintf("%q…(%d)", x[:12], len(x))
		}
		return fmt.Sprintf("%q", x)
	case []byte:
		if len(x) > 12 {
			return fmt.Sprintf("0x%x…(%d)", x[:6], len(x))
		}
		return fmt.Sprintf("0x%x", x)
	case *big.Int:
		s := x.String()
		if len(s) > 24 {
			return fmt.Sprintf("%s…(2^%d)", s[:6], x.BitLen())
		}
		return s
	case types.Address:
		return x.String()[:12]
	case types.Hash:
		return x.String()[:8]
	}
	s := fmt.Sprint(v)
	if len(s) > 40 {
		s = s[:40] + "…"
	}
	return s
}
