package sim

import (
	"fmt"
	"math/big"
	"math/rand"
	"sort"
	"time"

	"github.com/zenon-network/go-zenon/chain/nom"
	"github.com/zenon-network/go-zenon/common/types"
	"github.com/zenon-network/go-zenon/vm/embedded/definition"
)

// Reference election, written from the statement and the algorithm's definition:
// weights = sum of the backers' ZNN at the proof momentum; total order (weight desc, name asc);
// <=30 pillars: repeated seeded permutations fill 30 slots; >30: the top 30 by weight, of which
// a seeded permutation keeps 15, plus 15 drawn (seed+1) from the rest incl. the 15 dropped;
// final order = seeded permutation; seed = height of the proof momentum (math/rand semantics).

const (
	RefSlots    = 30
	RefRand     = 15
	RefSlotSecs = 10
	RefTickSecs = RefSlots * RefSlotSecs
)

type refPillar struct {
	name      string
	producing types.Address
	weight    *big.Int
}

// ProofMomentum: the last momentum strictly before the proof time of tick on n's chain
// (the frontier if every momentum is earlier).
func ProofMomentum(n *Node, tick uint64) *nom.Momentum {
	gen := n.Chain.GetGenesisMomentum()
	var proofTime time.Time
	if tick < 2 {
		proofTime = gen.Timestamp.Add(time.Second)
	} else {
		proofTime = gen.Timestamp.Add(time.Duration(tick-1) * RefTickSecs * time.Second) // end of tick-2
	}
	ms := n.Chain.GetFrontierMomentumStore()
	top := n.Height()
	// binary search over heights (timestamps strictly increase)
	lo, hi := uint64(1), top // invariant: answer in [lo,hi], height 1 = genesis is before any proof time
	for lo < hi {
		mid := (lo + hi + 1) / 2
		m, err := ms.GetMomentumByHeight(mid)
		if err != nil || m == nil {
			panic(fmt.Sprintf("momentum %d missing", mid))
		}
		if m.Timestamp.Before(proofTime) {
			lo = mid
		} else {
			hi = mid - 1
		}
	}
	m, _ := ms.GetMomentumByHeight(lo)
	return m
}

// RefElection returns the 30 producing addresses of the tick, the proof momentum, and the set
// of addresses registered as active producers at the proof momentum.
func RefElection(n *Node, tick uint64) ([]types.Address, *nom.Momentum, map[types.Address]bool, error) {
	proof := ProofMomentum(n, tick)
	ms := n.Chain.GetMomentumStore(proof.Identifier())
	if ms == nil {
		return nil, proof, nil, fmt.Errorf("no view at proof momentum %v", proof.Identifier())
	}
	st := ms.GetAccountStore(types.PillarContract).Storage()
	pillars, err := definition.GetPillarsList(st, true, definition.AnyPillarType)
	if err != nil {
		return nil, proof, nil, err
	}
	delegs, err := definition.GetDelegationsList(st)
	if err != nil {
		return nil, proof, nil, err
	}
	active := map[types.Address]bool{}
	byName := map[string]*refPillar{}
	var list []*refPillar
	for _, p := range pillars {
		rp := &refPillar{name: p.Name, producing: p.BlockProducingAddress, weight: new(big.Int)}
		byName[p.Name] = rp
		list = append(list, rp)
		active[p.BlockProducingAddress] = true
	}
	for _, d := range delegs {
		rp := byName[d.Name]
		if rp == nil {
			continue
		}
		bal, err := ms.GetAccountStore(d.Backer).GetBalance(types.ZnnTokenStandard)
		if err != nil {
			return nil, proof, nil, err
		}
		if bal != nil {
			rp.weight.Add(rp.weight, bal)
		}
	}
	order := func(l []*refPillar) {
		sort.SliceStable(l, func(i, j int) bool {
			c := l[j].weight.Cmp(l[i].weight)
			if c == 0 {
				return l[i].name < l[j].name
			}
			return c < 0
		})
	}
	order(list)
	seed := int64(proof.Height)
	var res []*refPillar
	if len(list) == 0 {
		return nil, proof, active, fmt.Errorf("no active pillars at proof momentum")
	}
	groupA := list
	var groupB []*refPillar
	if len(list) > RefSlots {
		groupA = append([]*refPillar{}, list[:RefSlots]...)
		groupB = append([]*refPillar{}, list[RefSlots:]...)
	}
	if len(groupA) != RefSlots {
		for len(res) < RefSlots {
			for _, idx := range rand.New(rand.NewSource(seed)).Perm(len(groupA)) {
				res = append(res, groupA[idx])
			}
		}
		res = res[:RefSlots]
	} else {
		top := rand.New(rand.NewSource(seed)).Perm(len(groupA))
		for i := 0; i < RefSlots-RefRand; i++ {
			res = append(res, groupA[top[i]])
		}
		for i := RefSlots - RefRand; i < RefSlots; i++ {
			groupB = append(groupB, groupA[top[i]])
		}
		for _, v := range rand.New(rand.NewSource(seed + 1)).Perm(len(groupB))[:RefRand] {
			res = append(res, groupB[v])
		}
	}
	out := make([]types.Address, 0, len(res))
	for _, v := range rand.New(rand.NewSource(seed)).Perm(len(res)) {
		out = append(out, res[v].producing)
	}
	return out, proof, active, nil
}

// TickOf returns the tick and slot index of a timestamp, and whether it is slot aligned.
func TickOf(n *Node, t time.Time) (tick uint64, slot int, aligned bool) {
	gen := n.Chain.GetGenesisMomentum().Timestamp
	d := t.Sub(*gen)
	if d < 0 {
		return 0, 0, false
	}
	secs := uint64(d / time.Second)
	return secs / RefTickSecs, int(secs % RefTickSecs / RefSlotSecs), d%(RefSlotSecs*time.Second) == 0
}

// SlotStart returns the start time of a slot.
func SlotStart(n *Node, tick uint64, slot int) time.Time {
	return n.Chain.GetGenesisMomentum().Timestamp.Add(time.Duration(tick*RefTickSecs+uint64(slot)*RefSlotSecs) * time.Second)
}
