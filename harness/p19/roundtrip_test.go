package p19

// C19 (a) — exact round trip of a key file.
//
//	entropy -> KeyStore -> Encrypt(password) -> Write -> ReadKeyFile -> Decrypt(password)
//
// returns the entropy, mnemonic, seed and base address that the reference computes from the entropy
// alone; the address recorded in the file is the reference's index-0 address; another password and a
// sampled single-bit change of the in-memory KeyFile fail with an error; entropies of a size other
// than 16/20/24/28/32 bytes are refused with an error. In a third of the cases the file is also
// decrypted by the reference (argon2id 1/64 MiB/4 + AES-256-GCM, additional data "zenon") and a
// file written by the reference is decrypted by the wallet: the package cannot create key files
// through its exported API, so the files it meets in production come from other implementations
// of this layout.

import (
	"bytes"
	"encoding/json"
	"fmt"
	"os"
	"testing"

	"github.com/zenon-network/go-zenon/common/types"
	"github.com/zenon-network/go-zenon/wallet"

	"verifharness/pbt"
)

// newKeyStore calls the package's only KeyStore constructor, never letting a panic through.
func newKeyStore(entropy []byte) (ks *wallet.KeyStore, err error, pan interface{}, stack string) {
	defer func() {
		if r := recover(); r != nil {
			pan, stack = r, shortStack()
		}
	}()
	ks, err = wallet.VerifKeyStoreFromEntropy(entropy)
	return
}

// refView is what the reference says a key store of this entropy contains.
type refView struct {
	mnemonic string
	seed     []byte
	addr0    [20]byte
}

func refViewOf(entropy []byte) refView {
	mn := refMnemonic(entropy)
	seed := refSeed(mn, "")
	return refView{mn, seed, refAddress(refDerive(seed, zenonPath(0)).pub())}
}

func checkKeyStore(c *pbt.C, what string, got *ksCopy, entropy []byte, rv refView) {
	if !bytes.Equal(got.Entropy, entropy) {
		c.Failf("C19/roundtrip-entropy", "%s: entropy %x, expected %x", what, got.Entropy, entropy)
	}
	if got.Mnemonic != rv.mnemonic {
		c.Failf("C19/mnemonic", "%s: mnemonic %q, reference (BIP-39) %q for entropy %x", what, got.Mnemonic, rv.mnemonic, entropy)
	}
	if !bytes.Equal(got.Seed, rv.seed) {
		c.Failf("C19/seed", "%s: seed %x, reference (PBKDF2-HMAC-SHA512, 2048, \"mnemonic\") %x", what, got.Seed, rv.seed)
	}
	if !bytes.Equal(got.BaseAddress.Bytes(), rv.addr0[:]) {
		c.Failf("C19/base-address", "%s: base address %x, reference address of m/44'/73404'/0' is %x", what, got.BaseAddress.Bytes(), rv.addr0)
	}
}

func invalidEntropyCase(c *pbt.C) {
	sizes := []int{0, 1, 4, 8, 12, 15, 17, 19, 21, 31, 33, 36, 40, 48, 64, -1}
	n := sizes[c.Pick("bad-size", len(sizes))]
	if n < 0 {
		n = c.Int("bad-size-any", 0, 80)
		if isValidSize(n) {
			n++
		}
	}
	data := c.Bytes("bad-entropy", n, n)
	c.Class("entropy-invalid-size")
	c.Note("entropy of %d bytes: %x", n, data)
	var arg []byte
	if n > 0 || c.Bool("empty-not-nil") {
		arg = append([]byte{}, data...)
	}
	ks, err, pan, stack := newKeyStore(arg)
	if pan != nil {
		c.Failf("C19/keystore-panic", "keyStoreFromEntropy(%d bytes) panics: %v [%s]", n, pan, stack)
	} else if err == nil || ks != nil {
		c.Failf("C19/invalid-entropy-accepted", "keyStoreFromEntropy accepts %d bytes of entropy: (%+v, %v)", n, ks, err)
	}
	// a key file whose (authentic) plaintext has a wrong size: error, no panic, no key store
	if c.Weighted("bad-size-file", 2, 1) == 1 {
		pw, _ := genPassword(c, "pw", 1, 3, 1, 0)
		salt := c.Bytes("salt", 16, 16)
		nonce := c.Bytes("nonce", 12, 12)
		key := refKDF(pw, salt)
		doc := refKeyFileJSON([20]byte{}, refSeal(key, nonce, data), nonce, salt, 1)
		o := open(c, caseDir(c), 0, doc, pw, c.Bool("via-manager"))
		c.Note("reference-written key file around that plaintext, password %s: %v", showPw(pw), o)
		c.Class("entropy-invalid-size-in-file")
		if o.pan != nil {
			c.Failf("C19/keystore-panic", "key file with a %d-byte plaintext: %v [%s]", n, o, o.stack)
		} else if o.err == nil {
			c.Failf("C19/invalid-entropy-accepted", "key file with a %d-byte plaintext decrypts to a key store (mnemonic %q)", n, o.ks.Mnemonic)
		}
	}
}

func TestC19RoundTrip(t *testing.T) {
	selfCheck(t)
	pbt.Check(t, "C19", func(c *pbt.C) {
		if c.Weighted("case-kind", 6, 1) == 1 {
			invalidEntropyCase(c)
			return
		}
		entropy := genEntropy(c, "entropy")
		pw, pwClass := genPassword(c, "pw", 1, 3, 3, 2)
		c.Class(fmt.Sprintf("entropy-%d", len(entropy)))
		c.Class("pw-" + pwClass)
		c.Note("entropy %x password %s", entropy, showPw(pw))
		rv := refViewOf(entropy)

		ks, err, pan, stack := newKeyStore(append([]byte{}, entropy...))
		if pan != nil {
			c.Failf("C19/keystore-panic", "keyStoreFromEntropy(%x) panics: %v [%s]", entropy, pan, stack)
			return
		}
		if err != nil || ks == nil {
			c.Failf("C19/valid-entropy-rejected", "keyStoreFromEntropy(%d bytes) = %v", len(entropy), err)
			return
		}
		checkKeyStore(c, "new key store", copyKS(ks), entropy, rv)

		kf, err := ks.Encrypt(pw)
		if err != nil || kf == nil {
			c.Failf("C19/encrypt-error", "Encrypt(%s) = %v", showPw(pw), err)
			return
		}
		if !bytes.Equal(kf.BaseAddress.Bytes(), rv.addr0[:]) {
			c.Failf("C19/base-address", "KeyFile.BaseAddress %x, reference index-0 address %x", kf.BaseAddress.Bytes(), rv.addr0)
		}
		dir := caseDir(c)
		// what the path held before: nothing, or an older (longer) key file that is being replaced
		var prev []byte
		switch c.Weighted("previous-file", 2, 2, 1) {
		case 1:
			prev = refKeyFileJSON(rv.addr0, bytes.Repeat([]byte{0xab}, 32+16+c.Int("previous-extra", 0, 64)), bytes.Repeat([]byte{1}, 12), bytes.Repeat([]byte{2}, 16), 1600000000)
			c.Class("replaces-longer-key-file")
		case 2:
			prev = bytes.Repeat([]byte("old content "), 300)
			c.Class("replaces-other-content")
		}
		sub, name, path := placeFile(dir, 0, prev)
		kf.Path = path
		if err := kf.Write(); err != nil {
			c.Failf("C19/write-error", "KeyFile.Write: %v", err)
			return
		}
		raw, err := os.ReadFile(path)
		if err != nil {
			panic(err)
		}
		// the document on disk, read without the wallet: records the index-0 address
		var top map[string]interface{}
		if err := json.Unmarshal(raw, &top); err != nil {
			c.Failf("C19/file-format", "written key file is not JSON: %v", err)
			return
		}
		want0, _ := types.BytesToAddress(rv.addr0[:])
		if s, _ := top["baseAddress"].(string); s != want0.String() {
			c.Failf("C19/base-address", "file records baseAddress %q, reference index-0 address is %s", s, want0)
		}
		sem := readSem(raw)
		if ok, why := sem.sameProtected(semFile{parsed: true, version: "1", cipherName: "aes-256-gcm", kdf: "argon2.IDKey",
			ct: kf.Crypto.CipherData, nonce: kf.Crypto.AesNonce, salt: kf.Crypto.Argon2Params.Salt}); !ok {
			c.Failf("C19/file-format", "written document differs from the KeyFile in %s: %s", why, raw)
		}
		c.Note("file: cipherData %x nonce %x salt %x", sem.ct, sem.nonce, sem.salt)

		// right password, through the file
		viaMgr := c.Weighted("route", 2, 1) == 1
		var o outcome
		if viaMgr {
			c.Class("route-manager")
			o = openViaManager(sub, name, pw)
		} else {
			c.Class("route-direct")
			o = openDirect(path, pw)
		}
		c.R.Count("kdf_calls", 2)
		if o.pan != nil {
			c.Failf("C19/decrypt-panic-valid-file", "untouched key file: %v [%s]", o, o.stack)
			return
		}
		if o.err != nil {
			c.Failf("C19/roundtrip-rejected", "untouched key file with its own password %s: %v", showPw(pw), o)
			return
		}
		c.Note("opened with the password (%s): %v", map[bool]string{false: "ReadKeyFile+Decrypt", true: "Manager.Start/Unlock/GetKeyStore"}[viaMgr], o)
		checkKeyStore(c, "decrypted key store", o.ks, entropy, rv)

		// the same file copied to another wallet directory (restored backup, other data directory)
		if viaMgr {
			mdir, mname, _ := placeFile(dir, 2, raw)
			mo := openViaManager(mdir, mname, pw)
			c.Class("moved-file")
			c.Note("the file copied to another directory, opened by a Manager there: %v", mo)
			if mo.err == nil && mo.pan == nil {
				c.R.Count("kdf_calls", 1)
				checkKeyStore(c, "key store from the copied file", mo.ks, entropy, rv)
			} else if mo.pan != nil {
				c.Failf("C19/decrypt-panic-valid-file", "copied key file: %v [%s]", mo, mo.stack)
			} else {
				// observation outside the statement (the document's member "Path" overrides the real
				// location, so a copied file is indexed under its old path): counted, not asserted
				c.R.Count("observation_moved_file_not_found", 1)
			}
		}

		kf2, err := wallet.ReadKeyFile(path)
		if err != nil {
			c.Failf("C19/roundtrip-rejected", "ReadKeyFile: %v", err)
			return
		}
		if kf2.BaseAddress != kf.BaseAddress || kf2.Version != kf.Version || kf2.Timestamp != kf.Timestamp ||
			!bytes.Equal(kf2.Crypto.CipherData, kf.Crypto.CipherData) || !bytes.Equal(kf2.Crypto.AesNonce, kf.Crypto.AesNonce) ||
			!bytes.Equal(kf2.Crypto.Argon2Params.Salt, kf.Crypto.Argon2Params.Salt) || kf2.Path != path {
			c.Failf("C19/file-format", "ReadKeyFile(Write(kf)) differs from kf: %+v vs %+v", kf2, kf)
		}

		// another password
		other, how := otherPassword(c, pw)
		c.Class("other-pw-" + how)
		wo := decryptStruct(kf2, other)
		c.R.Count("kdf_calls", 1)
		c.Note("other password (%s) %s: %v", how, showPw(other), wo)
		if wo.pan != nil {
			c.Failf("C19/decrypt-panic-valid-file", "untouched key file, other password: %v [%s]", wo, wo.stack)
		} else if wo.err == nil {
			c.Failf("C19/other-password-accepted", "file made with %s decrypts with %s (%s)", showPw(pw), showPw(other), how)
		}

		// one sampled single-bit change of the loaded KeyFile (the Manager keeps KeyFiles in memory)
		field := c.Pick("flip-field", 3)
		target := [][]byte{kf2.Crypto.CipherData, kf2.Crypto.AesNonce, kf2.Crypto.Argon2Params.Salt}[field]
		fname := []string{"cipherData", "nonce", "salt"}[field]
		bit := c.Int("flip-bit", 0, len(target)*8-1)
		target[bit/8] ^= 1 << uint(bit%8)
		fo := decryptStruct(kf2, pw)
		target[bit/8] ^= 1 << uint(bit%8)
		c.R.Count("kdf_calls", 1)
		c.R.Count("corruptions", 1)
		c.Class("flip-" + fname)
		c.Note("bit %d of %s flipped in memory: %v", bit, fname, fo)
		if fo.pan != nil {
			c.Failf("C19/decrypt-panic", "bit %d of %s flipped: %v [%s]", bit, fname, fo, fo.stack)
		} else if fo.err == nil {
			c.Failf("C19/tamper-accepted", "bit %d of %s flipped and Decrypt succeeds (entropy %x)", bit, fname, fo.ks.Entropy)
		}
		if pw != "" {
			c.NonTrivial()
			c.NonTrivialItem(fmt.Sprintf("rt/%d/%s/%s", len(entropy), pwClass, fname))
		}

		// the same in-memory key file again (a Manager keeps the KeyFiles it read at start): after a wrong password
		// and a refused tampered copy it still decrypts with its password, and written back it is still the file
		if c.Weighted("same-object-again", 1, 1) == 1 {
			c.Class("same-key-file-object-used-again")
			ao := decryptStruct(kf2, pw)
			c.R.Count("kdf_calls", 1)
			if ao.pan != nil {
				c.Failf("C19/decrypt-panic-valid-file", "key file object used a second time: %v [%s]", ao, ao.stack)
			} else if ao.err != nil {
				c.Failf("C19/roundtrip-rejected", "the key file object that was tried with another password before no longer decrypts with its own password %s: %v", showPw(pw), ao)
			} else {
				checkKeyStore(c, "key store from the second use of the key file object", ao.ks, entropy, rv)
			}
			if c.Bool("write-back") {
				if err := kf2.Write(); err != nil {
					c.Failf("C19/write-error", "KeyFile.Write after Decrypt: %v", err)
				}
				raw2, _ := os.ReadFile(path)
				if ok, why := readSem(raw2).sameProtected(sem); !ok {
					c.Failf("C19/file-format", "the key file written back after use differs from the original in %s", why)
				}
			}
		}

		// cross-implementation: reference opens the wallet's file, wallet opens the reference's file
		if c.Weighted("interop", 2, 1) == 1 {
			c.Class("interop")
			key := refKDF(pw, sem.salt)
			plain, err := refOpen(key, sem.nonce, sem.ct)
			if err != nil || !bytes.Equal(plain, entropy) {
				c.Failf("C19/file-format", "the reference (argon2id t=1 m=64MiB p=4, AES-256-GCM, additional data %q) cannot open the "+
					"wallet's file: %v / %x", refAD, err, plain)
			}
			e2 := genEntropy(c, "entropy2")
			nonce2 := c.Bytes("nonce2", 12, 12)
			rv2 := refViewOf(e2)
			doc := refKeyFileJSON(rv2.addr0, refSeal(key, nonce2, e2), nonce2, sem.salt, 1700000000)
			ro := open(c, dir, 1, doc, pw, c.Bool("interop-via-manager"))
			c.R.Count("kdf_calls", 2)
			c.Note("reference-written file for entropy %x: %v", e2, ro)
			if ro.pan != nil {
				c.Failf("C19/decrypt-panic-valid-file", "reference-written key file: %v [%s]", ro, ro.stack)
			} else if ro.err != nil {
				c.Failf("C19/file-format", "wallet cannot open a key file written by the reference for the same password: %v\n%s", ro, doc)
			} else {
				checkKeyStore(c, "key store from the reference-written file", ro.ks, e2, rv2)
			}
		}
	})
}

// decryptStruct is KeyFile.Decrypt on an in-memory KeyFile.
func decryptStruct(kf *wallet.KeyFile, pw string) (o outcome) {
	defer func() {
		if r := recover(); r != nil {
			o.pan, o.stack = r, shortStack()
		}
	}()
	o.stage = "Decrypt"
	ks, err := kf.Decrypt(pw)
	if err == nil && ks == nil {
		err = fmt.Errorf("Decrypt returned (nil, nil)")
	}
	o.ks, o.err = copyKS(ks), err
	return
}
