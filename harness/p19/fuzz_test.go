package p19

// C19 — native fuzz target (thorough tier): arbitrary bytes as a key file, opened with the password
// of the one authentic document the corpus starts from. Same oracle as TestC19Tamper:
//   - never a panic;
//   - a key store comes out only with the original entropy (nobody without the key can make another
//     authentic ciphertext);
//   - if the bytes are a JSON document without duplicate members that does not state exactly the
//     original version / cipher / kdf / ciphertext / nonce / salt, opening must fail.

import (
	"bytes"
	"encoding/json"
	"os"
	"path/filepath"
	"strings"
	"testing"
)

const fuzzPassword = "correct horse é battery"

var fuzzEntropy = unhex("7f8081828384858687888990a1b2c3d4e5f60718293a4b5c")

func fuzzSeedDoc() (doc []byte, ct, nonce, salt []byte) {
	salt = unhex("00112233445566778899aabbccddeeff")
	nonce = unhex("0102030405060708090a0b0c")
	ct = refSeal(refKDF(fuzzPassword, salt), nonce, fuzzEntropy)
	return refKeyFileJSON(refViewOf(fuzzEntropy).addr0, ct, nonce, salt, 1700000000), ct, nonce, salt
}

// hasDuplicateMembers: some object of the document has two members whose names are equal under
// case folding (encoding/json merges them into one struct field; which one wins is an encoding/json
// matter, not a wallet one).
func hasDuplicateMembers(data []byte) bool {
	dec := json.NewDecoder(bytes.NewReader(data))
	type frame struct {
		object bool
		keys   []string
		expKey bool
	}
	var stack []*frame
	for {
		tok, err := dec.Token()
		if err != nil {
			return false
		}
		top := func() *frame {
			if len(stack) == 0 {
				return nil
			}
			return stack[len(stack)-1]
		}
		if d, ok := tok.(json.Delim); ok {
			switch d {
			case '{':
				if t := top(); t != nil && t.object {
					t.expKey = true
				}
				stack = append(stack, &frame{object: true, expKey: true})
			case '[':
				if t := top(); t != nil && t.object {
					t.expKey = true
				}
				stack = append(stack, &frame{})
			default:
				stack = stack[:len(stack)-1]
			}
			continue
		}
		t := top()
		if t == nil || !t.object {
			continue
		}
		if t.expKey {
			k, _ := tok.(string)
			for _, o := range t.keys {
				if strings.EqualFold(o, k) {
					return true
				}
			}
			t.keys = append(t.keys, k)
			t.expKey = false
		} else {
			t.expKey = true
		}
	}
}

func knownKeys(id string) map[string]bool {
	out := map[string]bool{}
	path := os.Getenv("VERIF_KNOWN")
	if path == "" {
		path = "/verif/KNOWN_FINDINGS.txt"
	}
	data, _ := os.ReadFile(path)
	for _, line := range strings.Split(string(data), "\n") {
		line = strings.TrimSpace(line)
		if !strings.HasPrefix(line, "known:") {
			continue
		}
		var prop, key string
		for _, f := range strings.Fields(line) {
			if strings.HasPrefix(f, "property=") {
				prop = strings.TrimPrefix(f, "property=")
			}
			if strings.HasPrefix(f, "key=") {
				key = strings.TrimPrefix(f, "key=")
			}
		}
		if prop == id && key != "" {
			out[key] = true
		}
	}
	return out
}

func FuzzC19KeyFile(f *testing.F) {
	selfCheck(f)
	doc, ct, nonce, salt := fuzzSeedDoc()
	orig := semFile{parsed: true, version: "1", okVersion: true, cipherName: "aes-256-gcm", okCN: true, kdf: "argon2.IDKey", okKDF: true,
		ct: ct, okCT: true, nonce: nonce, okNonce: true, salt: salt, okSalt: true}
	if same, why := readSem(doc).sameProtected(orig); !same {
		f.Fatalf("HARNESS-ERROR seed document reads differently: %s", why)
	}
	known := knownKeys("C19")
	f.Add(doc)
	// (no seed with a nonce of another length: the driver can only file inputs the fuzzer wrote itself,
	// and TestC19Tamper covers that class)
	f.Add(bytes.Replace(doc, []byte(hx(salt)), []byte(`0X`+strings.ToUpper(hx(salt)[2:])), 1))
	f.Add(bytes.Replace(doc, []byte(`"version": 1`), []byte(`"version": 1, "Version": 2`), 1))
	f.Add([]byte(`{"crypto":null,"version":1}`))
	f.Fuzz(func(t *testing.T, data []byte) {
		path := filepath.Join(t.TempDir(), "keyfile")
		if err := os.WriteFile(path, data, 0o600); err != nil {
			t.Skip()
		}
		o := openDirect(path, fuzzPassword)
		sem := readSem(data)
		switch {
		case o.pan != nil:
			if known["C19/decrypt-panic"] && strings.Contains(strings.ToLower(toString(o.pan)), "nonce length") {
				return
			}
			t.Fatalf("VIOLATION key=C19/decrypt-panic opening the document panics: %v [%s]\ndocument states %v", o.pan, o.stack, sem)
		case o.err != nil:
			return
		}
		if !bytes.Equal(o.ks.Entropy, fuzzEntropy) {
			t.Fatalf("VIOLATION key=C19/roundtrip-entropy a document decrypts to entropy %x, the authentic one is %x", o.ks.Entropy, fuzzEntropy)
		}
		if same, why := sem.sameProtected(orig); !same && !hasDuplicateMembers(data) {
			t.Fatalf("VIOLATION key=C19/tamper-accepted the document differs from the authentic one in %s and still decrypts; it states %v", why, sem)
		}
	})
}

func toString(v interface{}) string {
	if e, ok := v.(error); ok {
		return e.Error()
	}
	if s, ok := v.(string); ok {
		return s
	}
	return ""
}
