package p19

// C19 (b) — a key file is tamper evident and never makes the wallet panic.
//
// One valid key file per case (generated entropy and password), then several corruptions, each
// applied to the ORIGINAL document and opened with the RIGHT password, directly
// (ReadKeyFile + Decrypt) or the way the node does (Manager.Start / GetKeyFile / Unlock /
// GetKeyStore).
//
// The expected outcome is not taken from how the corruption was made but from an independent
// reading of the corrupted document (readSem): if it no longer states exactly the original
// version, cipher name, kdf name, ciphertext, nonce and salt, opening it must return an error.
// If it still states them (re-serialisation, upper-case hex, other base address / timestamp,
// additional members), opening may fail or succeed, but success must yield the original entropy;
// a pure re-serialisation must succeed. A panic is a violation in every case.

import (
	"bytes"
	"encoding/hex"
	"encoding/json"
	"fmt"
	"os"
	"strings"
	"testing"

	"github.com/zenon-network/go-zenon/common/types"

	"verifharness/pbt"
)

type doc = map[string]interface{}

func parseDoc(raw []byte) doc {
	dec := json.NewDecoder(bytes.NewReader(raw))
	dec.UseNumber()
	var d doc
	if err := dec.Decode(&d); err != nil {
		panic(err)
	}
	return d
}

func (s semFile) String() string {
	return fmt.Sprintf("version=%s cipher=%q kdf=%q cipherData(%d)=%x nonce(%d)=%x salt(%d)=%x", s.version, s.cipherName, s.kdf,
		len(s.ct), s.ct, len(s.nonce), s.nonce, len(s.salt), s.salt)
}

// container returns the object holding the member named by a dotted path, and the member name.
func container(d doc, path string) (doc, string) {
	parts := strings.Split(path, ".")
	cur := d
	for _, p := range parts[:len(parts)-1] {
		next, _ := cur[p].(doc)
		if next == nil {
			panic("harness: path " + path)
		}
		cur = next
	}
	return cur, parts[len(parts)-1]
}

func marshalDoc(d doc) []byte {
	out, err := json.MarshalIndent(d, "", "    ")
	if err != nil {
		panic(err)
	}
	return out
}

var hexFields = []struct{ name, path string }{
	{"cipherData", "crypto.cipherData"},
	{"nonce", "crypto.nonce"},
	{"salt", "crypto.argon2Params.salt"},
}

type corruption struct {
	kind        string // class
	desc        string
	data        []byte
	mustErrWhy  string // why the generator believes it must fail ("" = it believes the protected fields are intact)
	mustSucceed bool
}

// genCorruption draws one corruption of the original document.
func genCorruption(c *pbt.C, raw []byte, orig semFile, otherAddr types.Address) corruption {
	d := parseDoc(raw)
	fieldBytes := func(i int) []byte {
		return append([]byte{}, [][]byte{orig.ct, orig.nonce, orig.salt}[i]...)
	}
	setHex := func(i int, b []byte) {
		o, k := container(d, hexFields[i].path)
		o[k] = hx(b)
	}
	setStr := func(i int, s string) {
		o, k := container(d, hexFields[i].path)
		o[k] = s
	}
	switch c.Weighted("kind", 40, 20, 6, 10, 12, 7, 9, 9) {
	case 0: // single-bit flip
		part := c.Pick("flip-part", 4) // ciphertext body, tag, nonce, salt
		fi := []int{0, 0, 1, 2}[part]
		b := fieldBytes(fi)
		lo, hi := 0, len(b)*8-1
		name := hexFields[fi].name
		if part == 0 {
			hi = (len(b)-16)*8 - 1
			name = "cipherData(body)"
		} else if part == 1 {
			lo = (len(b) - 16) * 8
			name = "cipherData(tag)"
		}
		bit := c.Int("flip-bit", lo, hi)
		b[bit/8] ^= 1 << uint(bit%8)
		setHex(fi, b)
		return corruption{kind: "bitflip-" + name, desc: fmt.Sprintf("bit %d of %s flipped", bit, name),
			data: marshalDoc(d), mustErrWhy: hexFields[fi].name}
	case 1: // length change
		fi := c.Pick("len-field", 3)
		b := fieldBytes(fi)
		var nb []byte
		var how string
		switch c.Pick("len-op", 8) {
		case 0:
			nb, how = b[:len(b)-1], "last byte dropped"
		case 1:
			nb, how = b[1:], "first byte dropped"
		case 2:
			k := c.Int("len-k", 1, len(b))
			nb, how = b[:len(b)-k], fmt.Sprintf("last %d bytes dropped", k)
		case 3:
			nb, how = nil, "emptied"
		case 4:
			nb, how = append(b, c.Bytes("len-extra", 1, 1)...), "one byte appended"
		case 5:
			nb, how = append(c.Bytes("len-extra", 1, 1), b...), "one byte prepended"
		case 6:
			nb, how = append(b, c.Bytes("len-extra", 1, 20)...), "bytes appended"
		case 7:
			nb, how = append(b, b...), "doubled"
		}
		setHex(fi, nb)
		cls := "shorter-"
		if len(nb) > len(b) {
			cls = "longer-"
		}
		return corruption{kind: cls + hexFields[fi].name, desc: fmt.Sprintf("%s: %s (%d -> %d bytes)", hexFields[fi].name, how, len(b), len(nb)),
			data: marshalDoc(d), mustErrWhy: hexFields[fi].name}
	case 2: // replaced by other bytes of the same length
		fi := c.Pick("repl-field", 3)
		b := fieldBytes(fi)
		var nb []byte
		how := "zeroed"
		if c.Bool("repl-random") {
			nb, how = c.Bytes("repl-bytes", len(b), len(b)), "replaced by random bytes"
		} else {
			nb = make([]byte, len(b))
		}
		if bytes.Equal(nb, b) {
			nb[0] ^= 1
		}
		setHex(fi, nb)
		return corruption{kind: "replaced-" + hexFields[fi].name, desc: hexFields[fi].name + " " + how, data: marshalDoc(d), mustErrWhy: hexFields[fi].name}
	case 3: // header: version, cipher name, kdf name
		switch c.Pick("hdr-field", 3) {
		case 0:
			vals := []interface{}{json.Number("0"), json.Number("2"), json.Number("-1"), json.Number("257"), json.Number("4294967297"),
				json.Number("18446744073709551617"), "1", true}
			v := vals[c.Pick("hdr-version", len(vals))]
			d["version"] = v
			return corruption{kind: "wrong-version", desc: fmt.Sprintf("version := %#v", v), data: marshalDoc(d), mustErrWhy: "version"}
		case 1:
			vals := []string{"aes-256-cbc", "aes-128-gcm", "AES-256-GCM", "aes-256-gcm ", "", "chacha20-poly1305"}
			v := vals[c.Pick("hdr-cipher", len(vals))]
			o, k := container(d, "crypto.cipherName")
			o[k] = v
			return corruption{kind: "wrong-cipher-name", desc: fmt.Sprintf("cipherName := %q", v), data: marshalDoc(d), mustErrWhy: "cipherName"}
		default:
			vals := []string{"scrypt", "argon2id", "argon2.Key", "Argon2.IDKey", "", "pbkdf2"}
			v := vals[c.Pick("hdr-kdf", len(vals))]
			o, k := container(d, "crypto.kdf")
			o[k] = v
			return corruption{kind: "wrong-kdf-name", desc: fmt.Sprintf("kdf := %q", v), data: marshalDoc(d), mustErrWhy: "kdf"}
		}
	case 4: // member missing / null / of another JSON type
		targets := []string{"crypto", "crypto.cipherData", "crypto.nonce", "crypto.argon2Params", "crypto.argon2Params.salt", "version",
			"crypto.cipherName", "crypto.kdf"}
		tg := targets[c.Pick("miss-target", len(targets))]
		o, k := container(d, tg)
		ops := []string{"deleted", "null", "number", "array", "object", "bool", "empty string"}
		op := ops[c.Pick("miss-op", len(ops))]
		switch op {
		case "deleted":
			delete(o, k)
		case "null":
			o[k] = nil
		case "number":
			o[k] = json.Number("7")
		case "array":
			o[k] = []interface{}{}
		case "object":
			o[k] = doc{}
		case "bool":
			o[k] = false
		case "empty string":
			o[k] = ""
		}
		cls := "missing-field"
		if op != "deleted" {
			cls = "wrong-type-field"
		}
		if strings.Contains(tg, "argon2Params") {
			cls += "-argon"
		}
		return corruption{kind: cls, desc: tg + " " + op, data: marshalDoc(d), mustErrWhy: tg}
	case 5: // hexadecimal syntax
		fi := c.Pick("hex-field", 3)
		b := fieldBytes(fi)
		h := hex.EncodeToString(b)
		switch c.Pick("hex-op", 6) {
		case 0:
			setStr(fi, h)
			return corruption{kind: "hex-syntax", desc: hexFields[fi].name + " without 0x prefix", data: marshalDoc(d)}
		case 1:
			setStr(fi, "0x"+h[:len(h)-1])
			return corruption{kind: "hex-syntax", desc: hexFields[fi].name + " last hex digit dropped", data: marshalDoc(d), mustErrWhy: hexFields[fi].name}
		case 2:
			pos := c.Int("hex-pos", 0, len(h)-1)
			bad := []byte{'g', 'z', ' ', '-', 'O'}[c.Pick("hex-bad", 5)]
			setStr(fi, "0x"+h[:pos]+string(bad)+h[pos+1:])
			return corruption{kind: "hex-syntax", desc: fmt.Sprintf("%s hex digit %d := %q", hexFields[fi].name, pos, bad), data: marshalDoc(d), mustErrWhy: hexFields[fi].name}
		case 3:
			setStr(fi, "0x"+strings.ToUpper(h))
			return corruption{kind: "same-value-other-spelling", desc: hexFields[fi].name + " in upper-case hex", data: marshalDoc(d)}
		case 4:
			setStr(fi, "0X"+h)
			return corruption{kind: "same-value-other-spelling", desc: hexFields[fi].name + " with 0X prefix", data: marshalDoc(d)}
		default:
			setStr(fi, "0x"+h+"0")
			return corruption{kind: "hex-syntax", desc: hexFields[fi].name + " one hex digit appended", data: marshalDoc(d), mustErrWhy: hexFields[fi].name}
		}
	case 6: // the raw file
		switch c.Pick("raw-op", 4) {
		case 0:
			n := c.Int("raw-cut", 0, len(raw)-1)
			return corruption{kind: "file-truncated", desc: fmt.Sprintf("file cut to its first %d of %d bytes", n, len(raw)), data: append([]byte{}, raw[:n]...), mustErrWhy: "not a JSON object"}
		case 1:
			return corruption{kind: "file-truncated", desc: "file emptied", data: []byte{}, mustErrWhy: "not a JSON object"}
		default:
			bit := c.Int("raw-bit", 0, len(raw)*8-1)
			nb := append([]byte{}, raw...)
			nb[bit/8] ^= 1 << uint(bit%8)
			return corruption{kind: "file-bitflip", desc: fmt.Sprintf("bit %d of byte %d of the file flipped (%q -> %q)", bit%8, bit/8, raw[bit/8], nb[bit/8]), data: nb}
		}
	default: // changes that leave version, names, ciphertext, nonce and salt as they were
		switch c.Pick("benign-op", 7) {
		case 0:
			out, _ := json.Marshal(d)
			return corruption{kind: "reserialised", desc: "document re-serialised compactly with sorted members", data: out, mustSucceed: true}
		case 1:
			out, _ := json.MarshalIndent(d, "\t", "\t\t")
			return corruption{kind: "reserialised", desc: "document re-indented with tabs, sorted members", data: append(append([]byte("\n \t"), out...), '\n'), mustSucceed: true}
		case 2:
			delete(d, "baseAddress")
			return corruption{kind: "other-member-changed", desc: "baseAddress deleted", data: marshalDoc(d)}
		case 3:
			d["baseAddress"] = otherAddr.String()
			return corruption{kind: "other-member-changed", desc: "baseAddress := " + otherAddr.String(), data: marshalDoc(d)}
		case 4:
			d["timestamp"] = json.Number(fmt.Sprint(c.Int("benign-ts", -5, 2000000000)))
			return corruption{kind: "other-member-changed", desc: fmt.Sprintf("timestamp := %v", d["timestamp"]), data: marshalDoc(d)}
		case 5:
			o, _ := container(d, "crypto.argon2Params.salt")
			o["time"], o["memory"], o["threads"], o["keyLen"] = json.Number("3"), json.Number("1024"), json.Number("1"), json.Number("16")
			return corruption{kind: "extra-argon-params", desc: "argon2Params gains time=3 memory=1024 threads=1 keyLen=16", data: marshalDoc(d)}
		default:
			d["comment"] = "restored from backup"
			o, _ := container(d, "crypto.kdf")
			o["mac"] = "0x00"
			return corruption{kind: "other-member-changed", desc: "unknown members added", data: marshalDoc(d)}
		}
	}
}

func TestC19Tamper(t *testing.T) {
	selfCheck(t)
	maxCorr := pbt.Scale(8, 12)
	pbt.Check(t, "C19", func(c *pbt.C) {
		entropy := genEntropy(c, "entropy")
		pw, pwClass := genPassword(c, "pw", 1, 4, 3, 1)
		c.Class(fmt.Sprintf("entropy-%d", len(entropy)))
		c.Class("pw-" + pwClass)
		ks, err, pan, _ := newKeyStore(append([]byte{}, entropy...))
		if pan != nil || err != nil {
			c.Failf("C19/valid-entropy-rejected", "keyStoreFromEntropy(%x): %v %v", entropy, err, pan)
			return
		}
		kf, err := ks.Encrypt(pw)
		if err != nil {
			c.Failf("C19/encrypt-error", "Encrypt: %v", err)
			return
		}
		c.R.Count("kdf_calls", 1)
		dir := caseDir(c)
		_, _, path := placeFile(dir, 0, nil)
		kf.Path = path
		if err := kf.Write(); err != nil {
			c.Failf("C19/write-error", "KeyFile.Write: %v", err)
			return
		}
		raw, err := os.ReadFile(path)
		if err != nil {
			panic(err)
		}
		orig := readSem(raw)
		if ok, why := orig.sameProtected(semFile{parsed: true, version: "1", cipherName: "aes-256-gcm", kdf: "argon2.IDKey",
			ct: kf.Crypto.CipherData, nonce: kf.Crypto.AesNonce, salt: kf.Crypto.Argon2Params.Salt}); !ok || len(orig.ct) != len(entropy)+16 {
			c.Failf("C19/file-format", "written document differs from the KeyFile in %s: %s", why, raw)
			return
		}
		c.Note("entropy %x password %s; file: %v", entropy, showPw(pw), orig)
		// an address that is not this wallet's
		otherAddr, _ := types.BytesToAddress(refAddressOfSeedIndex(entropy))

		n := c.Int("corruptions", 1, maxCorr)
		for i := 1; i <= n; i++ {
			// KeyFile.Write records the file's own path in the document (member "Path") and ReadKeyFile
			// believes it; every copy is therefore made to state the place it is put at (same length,
			// so bit positions keep their meaning). The moved-file case itself is in TestC19RoundTrip.
			wdir, wname, wpath := placeFile(dir, i, nil)
			rawI := relocate(raw, path, wpath)
			cr := genCorruption(c, rawI, orig, otherAddr)
			viaMgr := c.Weighted("route", 3, 1) == 1
			route := "direct"
			if viaMgr {
				route = "manager"
			}
			got := readSem(cr.data)
			same, diff := got.sameProtected(orig)
			if cr.mustErrWhy != "" && same {
				panic(fmt.Sprintf("harness: corruption %q was meant to change %s but the document still reads as the original", cr.desc, cr.mustErrWhy))
			}
			if cr.mustSucceed && !same {
				panic(fmt.Sprintf("harness: benign change %q altered %s", cr.desc, diff))
			}
			c.Checkpoint()
			if err := os.WriteFile(wpath, cr.data, 0o600); err != nil {
				panic(err)
			}
			var o outcome
			if viaMgr {
				o = openViaManager(wdir, wname, pw)
			} else {
				o = openDirect(wpath, pw)
			}
			c.Step()
			c.R.Count("corruptions", 1)
			if o.stage == "Decrypt" || o.stage == "Manager.Unlock" || o.stage == "Manager.GetKeyStore" {
				c.R.Count("kdf_calls", 1)
			}
			c.Class(cr.kind)
			c.Class("route-" + route)
			expect := "must fail (" + diff + " changed)"
			if same {
				expect = "protected fields intact"
			}
			c.Note("#%d %s [%s, %s] -> %v", i, cr.desc, route, expect, o)
			switch {
			case o.pan != nil:
				c.Class("outcome-panic")
				// suspected defect: nonce of a length other than 12 reaches cipher.AEAD.Open, which panics
				c.Failf("C19/decrypt-panic", "%s: opening the file with its password (%s) panics instead of returning an error: %v [%s]; "+
					"document states %v", cr.desc, route, o.pan, o.stack, got)
				// known finding: tolerated exactly when the stated nonce is not 12 bytes long
				if !(got.parsed && got.okNonce && len(got.nonce) != 12) && !(got.parsed && !got.okNonce) {
					c.Failf("C19/decrypt-panic-other", "%s: panic not explained by the nonce length: %v [%s]", cr.desc, o.pan, o.stack)
				}
			case o.err == nil && !same:
				c.Class("outcome-accepted")
				c.Failf("C19/tamper-accepted", "%s (%s changed): the file still decrypts (entropy %x, original %x); document states %v",
					cr.desc, diff, o.ks.Entropy, entropy, got)
			case o.err == nil:
				c.Class("outcome-intact-accepted")
				if !bytes.Equal(o.ks.Entropy, entropy) {
					c.Failf("C19/roundtrip-entropy", "%s: decrypts to entropy %x, original %x", cr.desc, o.ks.Entropy, entropy)
				}
			case same:
				c.Class("outcome-intact-rejected")
				if cr.mustSucceed {
					c.Failf("C19/roundtrip-rejected", "%s: the same document is rejected: %v", cr.desc, o)
				}
			default:
				c.Class("outcome-error-" + o.stage)
			}
			if pw != "" {
				c.NonTrivialItem("tamper/" + cr.kind + "/" + route)
			}
		}
		if pw != "" {
			c.NonTrivial()
		}
	})
}

// relocate rewrites the path a document states about itself.
func relocate(raw []byte, from, to string) []byte {
	f, _ := json.Marshal(from)
	t, _ := json.Marshal(to)
	if len(f) != len(t) {
		panic("harness: relocation changes the length")
	}
	return bytes.Replace(raw, f, t, 1)
}

// refAddressOfSeedIndex gives some other valid user address (index 1 of the same wallet).
func refAddressOfSeedIndex(entropy []byte) []byte {
	a := refAddress(refDerive(refSeed(refMnemonic(entropy), ""), zenonPath(1)).pub())
	return a[:]
}
