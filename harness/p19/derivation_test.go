package p19

// C19 (c) — mnemonic, seed, key pairs and addresses are the deterministic function of entropy and
// index that BIP-39 / SLIP-0010 (ed25519, hardened only) / "0x00 || sha3-256(pub)[:19]" define;
// non-hardened, overflowing and malformed paths are refused with an error; a signature made with a
// derived key verifies under its public key and under nothing else.
//
// The oracle is the reference in ref_test.go (validated against the published vectors at start-up).

import (
	"bytes"
	"crypto/ed25519"
	"fmt"
	"strconv"
	"strings"
	"testing"

	"github.com/zenon-network/go-zenon/common/types"
	"github.com/zenon-network/go-zenon/wallet"

	"verifharness/pbt"
)

// ---- own reading of a derivation path ----------------------------------------------------------

type pathVerdict int

const (
	pathInvalid pathVerdict = iota
	pathValid               // m(/N')+ with every N a plain decimal < 2^31
	pathZeros               // as pathValid but some N has leading zeros: the wallet may refuse it or read it as decimal
)

func readPath(s string) ([]uint32, pathVerdict) {
	if len(s) < 1 || s[0] != 'm' {
		return nil, pathInvalid
	}
	rest := s[1:]
	if rest == "" {
		return nil, pathInvalid
	}
	var segs []uint32
	verdict := pathValid
	for rest != "" {
		if rest[0] != '/' {
			return nil, pathInvalid
		}
		rest = rest[1:]
		n := 0
		for n < len(rest) && rest[n] >= '0' && rest[n] <= '9' {
			n++
		}
		if n == 0 || n >= len(rest) || rest[n] != '\'' {
			return nil, pathInvalid
		}
		var v uint64
		for i := 0; i < n; i++ {
			v = v*10 + uint64(rest[i]-'0')
			if v >= 1<<31 {
				return nil, pathInvalid // cannot be hardened (again) / overflows
			}
		}
		if n > 1 && rest[0] == '0' {
			verdict = pathZeros
		}
		segs = append(segs, uint32(v))
		rest = rest[n+1:]
	}
	return segs, verdict
}

func pathString(segs []uint32) string {
	var sb strings.Builder
	sb.WriteString("m")
	for _, s := range segs {
		sb.WriteString("/" + strconv.FormatUint(uint64(s), 10) + "'")
	}
	return sb.String()
}

// ---- generators --------------------------------------------------------------------------------

var fixedIdx = []uint32{0, 1, 127, 128, 1<<31 - 1}

func genGoodIndex(c *pbt.C, label string) uint32 {
	switch c.Weighted(label+"-class", 5, 4, 2, 1) {
	case 0:
		return fixedIdx[c.Pick(label+"-fixed", len(fixedIdx))]
	case 1:
		return uint32(c.Uint64(label+"-uniform", 0, 1<<31-1))
	case 2:
		return uint32(c.Uint64(label+"-low", 0, 300))
	}
	return uint32(c.Uint64(label+"-high", 1<<31-70000, 1<<31-1))
}

func genBadIndex(c *pbt.C, label string) uint32 {
	fixed := []uint32{1 << 31, 1<<31 + 1, 1<<32 - 1, 1<<31 + 128, 1<<32 - 2}
	if c.Bool(label + "-fixed?") {
		return fixed[c.Pick(label+"-fixed", len(fixed))]
	}
	return uint32(c.Uint64(label+"-uniform", 1<<31, 1<<32-1))
}

func idxClass(i uint32) string {
	switch {
	case i == 0:
		return "index-0"
	case i < 128:
		return "index-1..127"
	case i == 128:
		return "index-128"
	case i == 1<<31-1:
		return "index-2^31-1"
	case i < 1<<16:
		return "index-129..2^16"
	case i < 1<<31:
		return "index-2^16..2^31"
	}
	return "index->=2^31"
}

// ---- comparison --------------------------------------------------------------------------------

type derived struct {
	kp  *wallet.KeyPair
	err error
	pan interface{}
}

func guard(f func() (*wallet.KeyPair, error)) (d derived) {
	defer func() {
		if r := recover(); r != nil {
			d.pan = r
		}
	}()
	d.kp, d.err = f()
	return
}

func checkKeyPair(c *pbt.C, what string, d derived, n refNode) {
	if d.pan != nil {
		c.Failf("C19/derive-panic", "%s panics: %v", what, d.pan)
		return
	}
	if d.err != nil || d.kp == nil {
		c.Failf("C19/derive-rejected", "%s: error %v for a hardened path with all indices < 2^31", what, d.err)
		return
	}
	pub, addr := n.pub(), refAddress(n.pub())
	if len(d.kp.Private) != ed25519.PrivateKeySize || !bytes.Equal(d.kp.Private[:32], n.key[:]) {
		c.Failf("C19/derive-key", "%s: private key %x, SLIP-0010 reference %x", what, d.kp.Private, n.key)
	}
	if !bytes.Equal(d.kp.Public, pub) || !bytes.Equal(d.kp.Private[32:], pub) {
		c.Failf("C19/derive-key", "%s: public key %x (private tail %x), ed25519 public key of the reference key is %x", what, d.kp.Public, d.kp.Private[32:], pub)
	}
	if !bytes.Equal(d.kp.Address.Bytes(), addr[:]) {
		c.Failf("C19/address", "%s: address %x, 0x00||sha3-256(pub)[:19] = %x", what, d.kp.Address.Bytes(), addr)
	}
	if a := types.PubKeyToAddress(d.kp.Public); !bytes.Equal(a.Bytes(), addr[:]) {
		c.Failf("C19/address", "%s: PubKeyToAddress(%x) = %x, 0x00||sha3-256(pub)[:19] = %x", what, d.kp.Public, a.Bytes(), addr)
	}
}

func checkRefused(c *pbt.C, what string, d derived) {
	if d.pan != nil {
		c.Failf("C19/derive-panic", "%s panics: %v", what, d.pan)
	} else if d.err == nil {
		c.Failf("C19/bad-path-accepted", "%s: no error (address %v)", what, d.kp.Address)
	} else if d.kp != nil {
		c.Failf("C19/bad-path-accepted", "%s: error %v together with a key pair", what, d.err)
	}
}

func flipBit(b []byte, bit int) []byte {
	o := append([]byte{}, b...)
	o[bit/8] ^= 1 << uint(bit%8)
	return o
}

func verify(c *pbt.C, what string, pub ed25519.PublicKey, msg, sig []byte) bool {
	var ok bool
	var err error
	func() {
		defer func() {
			if r := recover(); r != nil {
				c.Failf("C19/verify-panic", "VerifySignature(%s) panics: %v", what, r)
			}
		}()
		ok, err = wallet.VerifySignature(pub, msg, sig)
	}()
	if err != nil && len(pub) == ed25519.PublicKeySize {
		c.Failf("C19/verify-error", "VerifySignature(%s): error %v for a 32-byte public key", what, err)
	}
	return ok && err == nil
}

func checkSigning(c *pbt.C, kp *wallet.KeyPair, n refNode, otherPub ed25519.PublicKey) {
	msg := c.Bytes("msg", 0, 96)
	sig := kp.Sign(msg)
	if len(sig) != ed25519.SignatureSize {
		c.Failf("C19/signature", "Sign returns %d bytes", len(sig))
		return
	}
	if !verify(c, "own key", kp.Public, msg, sig) {
		c.Failf("C19/signature", "signature of %x by the derived key does not verify under its public key %x", msg, kp.Public)
	}
	if !ed25519.Verify(n.pub(), msg, sig) {
		c.Failf("C19/signature", "signature of %x does not verify under the reference public key %x", msg, n.pub())
	}
	if ref := ed25519.Sign(n.priv(), msg); !bytes.Equal(ref, sig) {
		c.Failf("C19/signature", "signature %x differs from the (deterministic) ed25519 signature %x of the reference key", sig, ref)
	}
	s2, a2, p2, err := kp.Signer(msg)
	if err != nil || !bytes.Equal(s2, sig) || a2 == nil || *a2 != kp.Address || !bytes.Equal(p2, kp.Public) {
		c.Failf("C19/signature", "Signer() = (%x, %v, %x, %v) disagrees with Sign / the key pair", s2, a2, p2, err)
	}
	// flipped bits
	for k := 0; k < 3; k++ {
		bit := c.Int("sig-bit", 0, 64*8-1)
		if k == 2 {
			bit = 504 + bit%8 // top byte of S
		}
		if verify(c, "flipped signature", kp.Public, msg, flipBit(sig, bit)) {
			c.Failf("C19/forged-signature", "signature with bit %d flipped still verifies (msg %x)", bit, msg)
		}
	}
	if len(msg) > 0 {
		for k := 0; k < 2; k++ {
			bit := c.Int("msg-bit", 0, len(msg)*8-1)
			if verify(c, "flipped message", kp.Public, flipBit(msg, bit), sig) {
				c.Failf("C19/forged-signature", "message with bit %d flipped verifies under the old signature (msg %x)", bit, msg)
			}
		}
	}
	if verify(c, "extended message", kp.Public, append(append([]byte{}, msg...), 0), sig) {
		c.Failf("C19/forged-signature", "message extended by a zero byte verifies under the old signature (msg %x)", msg)
	}
	if otherPub != nil && !bytes.Equal(otherPub, kp.Public) && verify(c, "other key", otherPub, msg, sig) {
		c.Failf("C19/forged-signature", "signature verifies under another index's public key %x", otherPub)
	}
	// malformed inputs: an answer, not a panic
	bad := kp.Public[:c.Int("short-pub", 0, 31)]
	if verify(c, "short public key", bad, msg, sig) {
		c.Failf("C19/forged-signature", "signature verifies under a %d-byte public key", len(bad))
	}
	if verify(c, "short signature", kp.Public, msg, sig[:c.Int("short-sig", 0, 63)]) {
		c.Failf("C19/forged-signature", "truncated signature verifies")
	}
}

var badPathTemplates = []string{
	"m/44'/73404'/%d",                       // last not hardened
	"m/44/73404/%d",                         // none hardened
	"m/44'/73404/%d'",                       // middle not hardened
	"44'/73404'/%d'",                        // no m
	"/44'/73404'/%d'",                       //
	"M/44'/73404'/%d'",                      //
	"m/44'/73404'/%d'/",                     // trailing slash
	"m//44'/73404'/%d'",                     // empty segment
	"m/44'/73404'/%d''",                     // doubled mark
	"m/44'/73404'/%dh",                      // other hardening mark
	"m/44'/73404'/%dH",                      //
	"m/44'/73404'/-%d'",                     // sign
	"m/44'/73404'/+%d'",                     //
	"m/44'/73404'/%d.0'",                    //
	"m/44'/73404'/0x%d'",                    //
	"m/44'/73404'/%d'\n",                    // trailing newline
	"\nm/44'/73404'/%d'",                    //
	" m/44'/73404'/%d'",                     //
	"m/44'/73404'/ %d'",                     //
	"m/44'/73404'/%d '",                     //
	"m/44'/73404'/%d’",                      // typographic apostrophe
	"m/44'/73404'/١%d'",                     // arabic-indic digit
	"m/44'/73404'/%d'/x'",                   //
	"m/44'/73404'/'",                        // no digits
	"m/'",                                   //
	"m/",                                    //
	"",                                      //
	"m/44'/73404'/4294967296'",              // 2^32
	"m/44'/73404'/2147483648'",              // 2^31: cannot be hardened
	"m/44'/73404'/4294967295'",              // 2^32-1
	"m/2147483648'/73404'/%d'",              //
	"m/44'/73404'/18446744073709551616'",    // 2^64
	"m/44'/73404'/99999999999999999999999'", //
	"m/44'/73404'/%d'\x00",                  //
}

func genMutatedPath(c *pbt.C, base string) string {
	alphabet := "m/'0123456789 hH-+.x\n9'/"
	b := []byte(base)
	if c.Weighted("mut-zeros", 3, 1) == 1 { // leading zeros in one number
		seg := c.Pick("mut-zero-seg", 3)
		pos := 0
		for k := 0; k <= seg; k++ {
			pos += strings.IndexByte(base[pos:], '/') + 1
		}
		z := strings.Repeat("0", c.Int("mut-zero-count", 1, 12))
		return base[:pos] + z + base[pos:]
	}
	for k := c.Int("mut-count", 1, 2); k > 0; k-- {
		pos := c.Int("mut-pos", 0, len(b))
		switch c.Pick("mut-op", 3) {
		case 0: // insert
			ch := alphabet[c.Pick("mut-char", len(alphabet))]
			b = append(b[:pos], append([]byte{ch}, b[pos:]...)...)
		case 1: // delete
			if pos < len(b) {
				b = append(b[:pos], b[pos+1:]...)
			}
		default: // replace
			if pos < len(b) {
				b[pos] = alphabet[c.Pick("mut-char", len(alphabet))]
			}
		}
	}
	return string(b)
}

func TestC19Derivation(t *testing.T) {
	selfCheck(t)
	pbt.Check(t, "C19", func(c *pbt.C) {
		// the seed: from a key store (entropy -> mnemonic -> seed), or raw as the genesis tooling uses it
		var seed []byte
		var ks *wallet.KeyStore
		if c.Weighted("seed-source", 3, 1) == 0 {
			entropy := genEntropy(c, "entropy")
			c.Class(fmt.Sprintf("entropy-%d", len(entropy)))
			var err error
			var pan interface{}
			ks, err, pan, _ = newKeyStore(append([]byte{}, entropy...))
			if pan != nil || err != nil || ks == nil {
				c.Failf("C19/valid-entropy-rejected", "keyStoreFromEntropy(%x): %v %v", entropy, err, pan)
				return
			}
			rv := refViewOf(entropy)
			checkKeyStore(c, "new key store", copyKS(ks), entropy, rv)
			seed = rv.seed
			c.Note("entropy %x -> mnemonic %q", entropy, rv.mnemonic)
		} else {
			seed = c.Bytes("raw-seed", 0, 64)
			c.Class("raw-seed")
			c.Note("raw seed %x", seed)
		}
		wseed := append([]byte{}, seed...)

		var lastPub ed25519.PublicKey
		nontrivial := false
		rounds := c.Int("rounds", 1, 5)
		for r := 0; r < rounds; r++ {
			c.Step()
			switch c.Weighted("what", 6, 2, 3, 3, 2) {
			case 0: // index in range
				i := genGoodIndex(c, "index")
				c.Class(idxClass(i))
				n := refDerive(seed, zenonPath(i))
				d := guard(func() (*wallet.KeyPair, error) { return wallet.DeriveWithIndex(i, wseed) })
				checkKeyPair(c, fmt.Sprintf("DeriveWithIndex(%d)", i), d, n)
				if ks != nil {
					d2 := guard(func() (*wallet.KeyPair, error) { _, kp, err := ks.DeriveForIndexPath(i); return kp, err })
					checkKeyPair(c, fmt.Sprintf("KeyStore.DeriveForIndexPath(%d)", i), d2, n)
					d3 := guard(func() (*wallet.KeyPair, error) { _, kp, err := ks.DeriveForIndexPath(i); return kp, err })
					if d2.kp != nil && (d3.kp == nil || !bytes.Equal(d3.kp.Private, d2.kp.Private) || d3.kp.Address != d2.kp.Address) {
						c.Failf("C19/derive-nondeterministic", "two derivations of index %d differ", i)
					}
					if d2.kp != nil && c.Weighted("find", 3, 1) == 1 {
						c.Class("find-address")
						var kp *wallet.KeyPair
						var fi uint32
						var err error
						fd := guard(func() (*wallet.KeyPair, error) { kp, fi, err = ks.FindAddress(d2.kp.Address); return kp, err })
						if fd.pan != nil {
							c.Failf("C19/derive-panic", "FindAddress panics: %v", fd.pan)
						} else if i < 128 && (err != nil || kp == nil || fi != i || kp.Address != d2.kp.Address) {
							c.Failf("C19/find-address", "FindAddress(address of index %d) = (%v, %d, %v)", i, kp, fi, err)
						} else if err == nil && (kp == nil || kp.Address != d2.kp.Address) {
							c.Failf("C19/find-address", "FindAddress(address of index %d) returns the key of another address", i)
						}
					}
				}
				a := refAddress(n.pub())
				c.Note("index %d -> key %x pub %x address %x", i, n.key[:4], n.pub()[:4], a)
				if d.kp != nil {
					checkSigning(c, d.kp, n, lastPub)
					lastPub = n.pub()
				}
				if i >= 128 {
					nontrivial = true
					c.NonTrivialItem(idxClass(i))
				}
			case 1: // index that cannot be hardened
				i := genBadIndex(c, "bad-index")
				c.Class(idxClass(i))
				d := guard(func() (*wallet.KeyPair, error) { return wallet.DeriveWithIndex(i, wseed) })
				checkRefused(c, fmt.Sprintf("DeriveWithIndex(%d)", i), d)
				if ks != nil {
					d2 := guard(func() (*wallet.KeyPair, error) { _, kp, err := ks.DeriveForIndexPath(i); return kp, err })
					checkRefused(c, fmt.Sprintf("KeyStore.DeriveForIndexPath(%d)", i), d2)
				}
				c.Note("index %d refused: %v", i, d.err)
				nontrivial = true
			case 2: // well-formed hardened path of any depth
				depth := c.Int("depth", 1, 6)
				segs := make([]uint32, depth)
				for k := range segs {
					segs[k] = genGoodIndex(c, "seg")
				}
				if c.Bool("below-account-path") {
					// a path that starts like an account path of this wallet (m/44'/73404'/i') and goes on below it (or stops short)
					copy(segs, zenonPath(genGoodIndex(c, "account-index")))
					c.Class(fmt.Sprintf("path-valid-along-the-account-path-depth-%d", depth))
				}
				p := pathString(segs)
				c.Class(fmt.Sprintf("path-valid-depth-%d", depth))
				n := refDerive(seed, segs)
				d := guard(func() (*wallet.KeyPair, error) { return wallet.DeriveForPath(p, wseed) })
				checkKeyPair(c, "DeriveForPath("+strconv.Quote(p)+")", d, n)
				if ks != nil {
					d2 := guard(func() (*wallet.KeyPair, error) { _, kp, err := ks.DeriveForFullPath(p); return kp, err })
					checkKeyPair(c, "KeyStore.DeriveForFullPath("+strconv.Quote(p)+")", d2, n)
				}
				c.Note("path %s -> key %x", p, n.key[:4])
			case 3: // malformed / non-hardened / overflowing, from the list
				tpl := badPathTemplates[c.Pick("bad-path", len(badPathTemplates))]
				p := tpl
				if strings.Contains(tpl, "%d") {
					p = fmt.Sprintf(tpl, genGoodIndex(c, "bad-path-index"))
				}
				if _, v := readPath(p); v != pathInvalid {
					panic("harness: template " + strconv.Quote(p) + " reads as a valid path")
				}
				c.Class("path-malformed")
				d := guard(func() (*wallet.KeyPair, error) { return wallet.DeriveForPath(p, wseed) })
				checkRefused(c, "DeriveForPath("+strconv.Quote(p)+")", d)
				if ks != nil {
					d2 := guard(func() (*wallet.KeyPair, error) { _, kp, err := ks.DeriveForFullPath(p); return kp, err })
					checkRefused(c, "KeyStore.DeriveForFullPath("+strconv.Quote(p)+")", d2)
				}
				c.Note("path %q refused: %v", p, d.err)
			default: // one or two character edits of a valid path; own reading decides
				base := pathString(zenonPath(genGoodIndex(c, "mut-index")))
				p := genMutatedPath(c, base)
				segs, v := readPath(p)
				d := guard(func() (*wallet.KeyPair, error) { return wallet.DeriveForPath(p, wseed) })
				switch v {
				case pathValid:
					c.Class("path-mutated-still-valid")
					checkKeyPair(c, "DeriveForPath("+strconv.Quote(p)+")", d, refDerive(seed, segs))
				case pathZeros:
					c.Class("path-mutated-leading-zeros")
					if d.pan != nil {
						c.Failf("C19/derive-panic", "DeriveForPath(%q) panics: %v", p, d.pan)
					} else if d.err == nil {
						checkKeyPair(c, "DeriveForPath("+strconv.Quote(p)+")", d, refDerive(seed, segs))
					}
				default:
					c.Class("path-mutated-invalid")
					checkRefused(c, "DeriveForPath("+strconv.Quote(p)+")", d)
				}
				c.Note("edited path %q (verdict %d): err=%v", p, v, d.err)
			}
		}
		if !bytes.Equal(wseed, seed) {
			c.Failf("C19/seed-mutated", "derivation modified the caller's seed")
		}
		if nontrivial {
			c.NonTrivial()
		}
	})
}
