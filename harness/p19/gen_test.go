package p19

// C19 — generators and shared plumbing (entropies, passwords, "another password", the routes by
// which a key file is opened, an independent semantic reading of a key-file JSON document).

import (
	"bytes"
	"encoding/hex"
	"encoding/json"
	"fmt"
	"os"
	"path/filepath"
	"runtime/debug"
	"sort"
	"strings"
	"unicode"
	"unicode/utf8"

	"github.com/zenon-network/go-zenon/common/types"
	"github.com/zenon-network/go-zenon/wallet"

	"verifharness/pbt"
)

var validSizes = []int{16, 20, 24, 28, 32}

func isValidSize(n int) bool {
	for _, v := range validSizes {
		if v == n {
			return true
		}
	}
	return false
}

func genEntropy(c *pbt.C, label string) []byte {
	n := validSizes[c.Weighted(label+"-size", 3, 1, 2, 1, 3)]
	switch c.Weighted(label+"-kind", 10, 1, 1) {
	case 1:
		return make([]byte, n)
	case 2:
		return bytes.Repeat([]byte{0xff}, n)
	}
	return c.Bytes(label, n, n)
}

var uniRunes = []rune{'\u00e9', '\u00df', '\u03a9', '\u0436', '\u4e2d', '\u65e5', '\ud55c', '\U0001f642', '\U0001d518',
	'\u0301', '\u00a0', '\u0130', '\u01c5', '\u200d', '\ufeff', '\u0000', '\u00f1', '\u00fc', '\u0627', '\u05d0', '\u2003', '\ufb01'}

func asciiFrom(b []byte) string {
	out := make([]byte, len(b))
	for i, x := range b {
		out[i] = 0x20 + x%95
	}
	return string(out)
}

func unicodeFrom(b []byte) string {
	var sb strings.Builder
	multi := false
	for _, x := range b {
		if x >= 208 {
			sb.WriteByte('a' + x%26)
		} else {
			sb.WriteRune(uniRunes[int(x)%len(uniRunes)])
			multi = true
		}
	}
	if !multi {
		sb.WriteRune('\u00e9')
	}
	return sb.String()
}

// genPassword draws a password of one of the classes empty / ascii / unicode / long (>= 1 KiB).
func genPassword(c *pbt.C, label string, wEmpty, wASCII, wUnicode, wLong int) (pw, class string) {
	switch c.Weighted(label+"-kind", wEmpty, wASCII, wUnicode, wLong) {
	case 0:
		return "", "empty"
	case 1:
		return asciiFrom(c.Bytes(label+"-ascii", 1, 24)), "ascii"
	case 2:
		return unicodeFrom(c.Bytes(label+"-uni", 1, 12)), "unicode"
	}
	var unit string
	if c.Bool(label + "-long-unicode") {
		unit = unicodeFrom(c.Bytes(label+"-unit", 1, 8))
	} else {
		unit = asciiFrom(c.Bytes(label+"-unit", 1, 16))
	}
	var sb strings.Builder
	for sb.Len() < 1024 {
		sb.WriteString(unit)
	}
	return sb.String(), "long"
}

// otherPassword returns a password different from pw, preferring near misses.
func otherPassword(c *pbt.C, pw string) (other, how string) {
	type alt struct {
		how string
		f   func() string
	}
	alts := []alt{
		{"append-char", func() string { return pw + asciiFrom(c.Bytes("other-char", 1, 1)) }},
		{"space-suffix", func() string { return pw + " " }},
		{"space-prefix", func() string { return " " + pw }},
		{"nul-suffix", func() string { return pw + "\x00" }},
		{"fresh", func() string {
			o, _ := genPassword(c, "other", 0, 2, 1, 0)
			return o
		}},
	}
	if pw != "" {
		alts = append(alts,
			alt{"empty", func() string { return "" }},
			alt{"drop-last-rune", func() string {
				_, n := utf8.DecodeLastRuneInString(pw)
				return pw[:len(pw)-n]
			}},
			alt{"drop-first-rune", func() string {
				_, n := utf8.DecodeRuneInString(pw)
				return pw[n:]
			}},
			alt{"bit-flip", func() string {
				b := []byte(pw)
				i := c.Int("other-bit", 0, len(b)*8-1)
				b[i/8] ^= 1 << uint(i%8)
				return string(b)
			}},
			alt{"doubled", func() string { return pw + pw }},
		)
		for i, r := range pw {
			if r < 0x80 && unicode.IsLetter(r) {
				i, r := i, r
				alts = append(alts, alt{"case", func() string {
					sw := unicode.ToUpper(r)
					if sw == r {
						sw = unicode.ToLower(r)
					}
					return pw[:i] + string(sw) + pw[i+1:]
				}})
				break
			}
		}
		if strings.Contains(pw, "\u00e9") {
			alts = append(alts, alt{"nfd", func() string { return strings.Replace(pw, "\u00e9", "e\u0301", 1) }})
		}
	}
	if len(pw) > 72 {
		trunc := []alt{
			{"truncate-72", func() string { return pw[:72] }},
			{"truncate-64", func() string { return pw[:64] }},
			{"truncate-1023", func() string { return pw[:len(pw)-1] }},
			{"long-last-byte", func() string { return pw[:len(pw)-1] + string(pw[len(pw)-1]^1) }},
		}
		if c.Bool("other-long-tail") { // long passwords: prefer differences an implementation that truncates would miss
			alts = trunc
		} else {
			alts = append(alts, trunc...)
		}
	}
	names := make([]string, len(alts))
	for i := range alts {
		names[i] = alts[i].how
	}
	a := alts[c.Pick("other-how", len(alts))]
	other = a.f()
	if other == pw {
		other = pw + "x"
	}
	return other, a.how
}

func showPw(pw string) string {
	if len(pw) > 40 {
		return fmt.Sprintf("%q... (%d bytes)", pw[:24], len(pw))
	}
	return fmt.Sprintf("%q", pw)
}

// ---- opening a key file ------------------------------------------------------------------------

type ksCopy struct {
	Entropy, Seed []byte
	Mnemonic      string
	BaseAddress   types.Address
}

func copyKS(ks *wallet.KeyStore) *ksCopy {
	if ks == nil {
		return nil
	}
	return &ksCopy{Entropy: append([]byte{}, ks.Entropy...), Seed: append([]byte{}, ks.Seed...), Mnemonic: ks.Mnemonic, BaseAddress: ks.BaseAddress}
}

type outcome struct {
	ks    *ksCopy
	err   error
	pan   interface{}
	stack string
	stage string
}

func (o outcome) String() string {
	switch {
	case o.pan != nil:
		return fmt.Sprintf("PANIC at %s: %v", o.stage, o.pan)
	case o.err != nil:
		return fmt.Sprintf("error at %s: %v", o.stage, o.err)
	}
	return "decrypted"
}

func shortStack() string {
	lines := strings.Split(string(debug.Stack()), "\n")
	var keep []string
	for _, l := range lines {
		if strings.Contains(l, "go-zenon") || strings.Contains(l, "/repo/") || strings.Contains(l, "crypto/cipher") {
			keep = append(keep, strings.TrimSpace(l))
		}
	}
	if len(keep) > 12 {
		keep = keep[:12]
	}
	return strings.Join(keep, " | ")
}

// openDirect is ReadKeyFile followed by Decrypt.
func openDirect(path, pw string) (o outcome) {
	defer func() {
		if r := recover(); r != nil {
			o.pan, o.stack = r, shortStack()
		}
	}()
	o.stage = "ReadKeyFile"
	kf, err := wallet.ReadKeyFile(path)
	if err != nil {
		o.err = err
		return
	}
	if kf == nil {
		o.err = fmt.Errorf("ReadKeyFile returned (nil, nil)")
		return
	}
	o.stage = "Decrypt"
	ks, err := kf.Decrypt(pw)
	if err == nil && ks == nil {
		err = fmt.Errorf("Decrypt returned (nil, nil)")
	}
	o.ks, o.err = copyKS(ks), err
	return
}

// openViaManager is what the node does at start-up for the producer key file
// (node/config.go parseProducer): Manager.Start, GetKeyFile, Unlock, GetKeyStore.
func openViaManager(dir, name, pw string) (o outcome) {
	defer func() {
		if r := recover(); r != nil {
			o.pan, o.stack = r, shortStack()
		}
	}()
	o.stage = "Manager.Start"
	m := wallet.New(&wallet.Config{WalletDir: dir})
	if err := m.Start(); err != nil {
		o.err = err
		return
	}
	defer m.Stop()
	o.stage = "Manager.GetKeyFile"
	if _, err := m.GetKeyFile(name); err != nil {
		o.err = err
		return
	}
	o.stage = "Manager.Unlock"
	if err := m.Unlock(name, pw); err != nil {
		o.err = err
		return
	}
	o.stage = "Manager.GetKeyStore"
	ks, err := m.GetKeyStore(name)
	if err == nil && ks == nil {
		err = fmt.Errorf("GetKeyStore returned (nil, nil)")
	}
	o.ks, o.err = copyKS(ks), err // copied before Stop() zeroes it
	return
}

// caseDir makes the scratch directory of a case.
func caseDir(c *pbt.C) string {
	dir, err := os.MkdirTemp("", "c19-")
	if err != nil {
		panic(err)
	}
	c.Cleanup(func() { _ = os.RemoveAll(dir) })
	return dir
}

// placeFile writes data as the only file of a fresh sub-directory and returns (dir, name, path).
func placeFile(base string, seq int, data []byte) (dir, name, path string) {
	dir = filepath.Join(base, fmt.Sprintf("w%03d", seq))
	if err := os.MkdirAll(dir, 0o700); err != nil {
		panic(err)
	}
	name = "keyfile"
	path = filepath.Join(dir, name)
	if err := os.WriteFile(path, data, 0o600); err != nil {
		panic(err)
	}
	return
}

func open(c *pbt.C, base string, seq int, data []byte, pw string, viaManager bool) outcome {
	dir, name, path := placeFile(base, seq, data)
	if viaManager {
		return openViaManager(dir, name, pw)
	}
	return openDirect(path, pw)
}

// ---- reference key-file document ---------------------------------------------------------------

func hx(b []byte) string { return "0x" + hex.EncodeToString(b) }

// refKeyFileJSON writes the documented layout by hand (not through the wallet's struct).
func refKeyFileJSON(addr [20]byte, ct, nonce, salt []byte, timestamp int64) []byte {
	a, err := types.BytesToAddress(addr[:])
	if err != nil {
		panic(err)
	}
	return []byte(fmt.Sprintf(`{
  "baseAddress": %q,
  "crypto": {
    "cipherName": "aes-256-gcm",
    "kdf": "argon2.IDKey",
    "cipherData": %q,
    "nonce": %q,
    "argon2Params": {"salt": %q}
  },
  "version": 1,
  "timestamp": %d
}`, a.String(), hx(ct), hx(nonce), hx(salt), timestamp))
}

// ---- independent semantic reading of a key-file document ---------------------------------------

// semFile is what a key-file document says about the fields that decide decryption. A field that
// is absent, of the wrong JSON type or not hexadecimal is "not ok".
type semFile struct {
	parsed                 bool
	version                string
	cipherName, kdf        string
	ct, nonce, salt        []byte
	okCT, okNonce, okSalt  bool
	okVersion, okCN, okKDF bool
}

// lookup finds a member like encoding/json does for struct fields: exact name, else ASCII case fold.
func lookup(m map[string]interface{}, name string) (interface{}, bool) {
	if v, ok := m[name]; ok {
		return v, true
	}
	keys := make([]string, 0, len(m))
	for k := range m {
		keys = append(keys, k)
	}
	sort.Strings(keys)
	var (
		found bool
		val   interface{}
	)
	for _, k := range keys {
		if strings.EqualFold(k, name) {
			found, val = true, m[k]
		}
	}
	return val, found
}

func lenientHex(v interface{}) ([]byte, bool) {
	s, ok := v.(string)
	if !ok {
		return nil, false
	}
	if strings.HasPrefix(s, "0x") || strings.HasPrefix(s, "0X") {
		s = s[2:]
	}
	b, err := hex.DecodeString(s)
	if err != nil {
		return nil, false
	}
	return b, true
}

func readSem(data []byte) semFile {
	var s semFile
	if !json.Valid(data) { // exactly one JSON value, as json.Unmarshal demands
		return s
	}
	dec := json.NewDecoder(bytes.NewReader(data))
	dec.UseNumber()
	var top map[string]interface{}
	if err := dec.Decode(&top); err != nil || top == nil {
		return s
	}
	s.parsed = true
	if v, ok := lookup(top, "version"); ok {
		if n, ok := v.(json.Number); ok {
			s.version, s.okVersion = n.String(), true
		}
	}
	cr, _ := lookup(top, "crypto")
	crypto, _ := cr.(map[string]interface{})
	if crypto == nil {
		return s
	}
	if v, ok := lookup(crypto, "cipherName"); ok {
		s.cipherName, s.okCN = v.(string)
	}
	if v, ok := lookup(crypto, "kdf"); ok {
		s.kdf, s.okKDF = v.(string)
	}
	if v, ok := lookup(crypto, "cipherData"); ok {
		s.ct, s.okCT = lenientHex(v)
	}
	if v, ok := lookup(crypto, "nonce"); ok {
		s.nonce, s.okNonce = lenientHex(v)
	}
	ar, _ := lookup(crypto, "argon2Params")
	if argon, _ := ar.(map[string]interface{}); argon != nil {
		if v, ok := lookup(argon, "salt"); ok {
			s.salt, s.okSalt = lenientHex(v)
		}
	}
	return s
}

// sameProtected: the document states exactly the original's version, cipher, kdf, ciphertext,
// nonce and salt. Everything else is a change that the statement says must fail.
func (s semFile) sameProtected(o semFile) (bool, string) {
	switch {
	case !s.parsed:
		return false, "not a JSON object"
	case !s.okVersion || s.version != o.version:
		return false, "version"
	case !s.okCN || s.cipherName != o.cipherName:
		return false, "cipherName"
	case !s.okKDF || s.kdf != o.kdf:
		return false, "kdf"
	case !s.okCT || !bytes.Equal(s.ct, o.ct):
		return false, "cipherData"
	case !s.okNonce || !bytes.Equal(s.nonce, o.nonce):
		return false, "nonce"
	case !s.okSalt || !bytes.Equal(s.salt, o.salt):
		return false, "salt"
	}
	return true, ""
}
