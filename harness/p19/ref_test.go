package p19

// C19 — reference side of the wallet check.
//
// Everything in this file is written from the specifications (BIP-39, SLIP-0010, RFC 8018 PBKDF2,
// the key-file layout documented in the property's anchors) and shares no code with
// /repo/wallet. It is validated once per process against published vectors (selfCheck) before
// any property is evaluated: a wrong reference stops the run as a harness error, it can never show
// up as a violation of the code under test.

import (
	"bytes"
	"crypto/aes"
	"crypto/cipher"
	"crypto/ed25519"
	"crypto/hmac"
	"crypto/sha256"
	"crypto/sha512"
	"encoding/binary"
	"encoding/hex"
	"fmt"
	"strings"
	"sync"
	"testing"

	"github.com/inconshreveable/log15"
	"github.com/tyler-smith/go-bip39/wordlists"
	"golang.org/x/crypto/argon2"
	"golang.org/x/crypto/sha3"

	"github.com/zenon-network/go-zenon/common"
)

const hardened = uint32(0x80000000)

// ---- BIP-39 ----------------------------------------------------------------------------------

// refMnemonic: entropy || first len/32 bits of sha256(entropy), cut into 11-bit word indices.
// (The English word list is data; it is taken from the bip39 module, the encoding is ours.)
func refMnemonic(entropy []byte) string {
	n := len(entropy) * 8
	cs := n / 32
	sum := sha256.Sum256(entropy)
	bit := func(i int) int {
		if i < n {
			return int(entropy[i/8]>>(7-uint(i%8))) & 1
		}
		j := i - n
		return int(sum[j/8]>>(7-uint(j%8))) & 1
	}
	words := make([]string, 0, (n+cs)/11)
	for w := 0; w < (n+cs)/11; w++ {
		idx := 0
		for b := 0; b < 11; b++ {
			idx = idx<<1 | bit(w*11+b)
		}
		words = append(words, wordlists.English[idx])
	}
	return strings.Join(words, " ")
}

// refPBKDF2SHA512 is RFC 8018 section 5.2 with HMAC-SHA512.
func refPBKDF2SHA512(password, salt []byte, iter, keyLen int) []byte {
	var out []byte
	for block := uint32(1); len(out) < keyLen; block++ {
		mac := hmac.New(sha512.New, password)
		mac.Write(salt)
		var ib [4]byte
		binary.BigEndian.PutUint32(ib[:], block)
		mac.Write(ib[:])
		u := mac.Sum(nil)
		t := append([]byte{}, u...)
		for i := 1; i < iter; i++ {
			mac = hmac.New(sha512.New, password)
			mac.Write(u)
			u = mac.Sum(nil)
			for k := range t {
				t[k] ^= u[k]
			}
		}
		out = append(out, t...)
	}
	return out[:keyLen]
}

// refSeed: BIP-39 seed = PBKDF2-HMAC-SHA512(mnemonic, "mnemonic"+passphrase, 2048, 64).
func refSeed(mnemonic, passphrase string) []byte {
	return refPBKDF2SHA512([]byte(mnemonic), []byte("mnemonic"+passphrase), 2048, 64)
}

// ---- SLIP-0010 ed25519 -----------------------------------------------------------------------

type refNode struct {
	key   [32]byte
	chain [32]byte
}

func hmac512(key, data []byte) []byte {
	mac := hmac.New(sha512.New, key)
	mac.Write(data)
	return mac.Sum(nil)
}

func refMaster(seed []byte) refNode {
	i := hmac512([]byte("ed25519 seed"), seed)
	var n refNode
	copy(n.key[:], i[:32])
	copy(n.chain[:], i[32:])
	return n
}

// child derives the hardened child with full index i (i >= 2^31); ed25519 has no other kind.
func (n refNode) child(i uint32) refNode {
	if i < hardened {
		panic("reference: non-hardened child requested")
	}
	data := make([]byte, 0, 37)
	data = append(data, 0)
	data = append(data, n.key[:]...)
	var ib [4]byte
	binary.BigEndian.PutUint32(ib[:], i)
	data = append(data, ib[:]...)
	s := hmac512(n.chain[:], data)
	var c refNode
	copy(c.key[:], s[:32])
	copy(c.chain[:], s[32:])
	return c
}

// refDerive walks m/i0'/i1'/... ; every element is the un-hardened number (< 2^31).
func refDerive(seed []byte, path []uint32) refNode {
	n := refMaster(seed)
	for _, p := range path {
		n = n.child(p + hardened)
	}
	return n
}

func (n refNode) pub() ed25519.PublicKey {
	return ed25519.NewKeyFromSeed(n.key[:]).Public().(ed25519.PublicKey)
}

func (n refNode) priv() ed25519.PrivateKey { return ed25519.NewKeyFromSeed(n.key[:]) }

// refAddress = 0x00 || sha3-256(pubkey)[:19]
func refAddress(pub []byte) [20]byte {
	h := sha3.Sum256(pub)
	var a [20]byte
	a[0] = 0
	copy(a[1:], h[:19])
	return a
}

// zenonPath is m/44'/73404'/i'.
func zenonPath(i uint32) []uint32 { return []uint32{44, 73404, i} }

// ---- key-file cryptography -------------------------------------------------------------------

const refAD = "zenon"

// refKDF: argon2id, 1 pass, 64 MiB, 4 lanes, 32-byte key.
func refKDF(password string, salt []byte) []byte {
	return argon2.IDKey([]byte(password), salt, 1, 64*1024, 4, 32)
}

func refGCM(key []byte) cipher.AEAD {
	b, err := aes.NewCipher(key)
	if err != nil {
		panic(err)
	}
	g, err := cipher.NewGCM(b)
	if err != nil {
		panic(err)
	}
	return g
}

func refSeal(key, nonce, plain []byte) []byte {
	return refGCM(key).Seal(nil, nonce, plain, []byte(refAD))
}
func refOpen(key, nonce, ct []byte) ([]byte, error) {
	if len(nonce) != 12 {
		return nil, fmt.Errorf("nonce length %d", len(nonce))
	}
	return refGCM(key).Open(nil, nonce, ct, []byte(refAD))
}

// ---- self check ------------------------------------------------------------------------------

func unhex(s string) []byte {
	b, err := hex.DecodeString(s)
	if err != nil {
		panic(err)
	}
	return b
}

var (
	selfOnce sync.Once
	selfErr  error
)

// selfCheck validates the reference against published vectors.
func selfCheck(t testing.TB) {
	if err := ensureSelf(); err != nil {
		t.Fatalf("HARNESS-ERROR reference self check: %v", err)
	}
}

func ensureSelf() error {
	selfOnce.Do(func() {
		common.WalletLogger.SetHandler(log15.DiscardHandler())
		log15.Root().SetHandler(log15.DiscardHandler())
		selfErr = runSelfCheck()
	})
	return selfErr
}

func runSelfCheck() error {
	// SLIP-0010, "Test vector 1 for ed25519"
	seed := unhex("000102030405060708090a0b0c0d0e0f")
	type v struct {
		path             []uint32
		chain, priv, pub string
	}
	vs := []v{
		{nil, "90046a93de5380a72b5e45010748567d5ea02bbf6522f979e05c0d8d8ca9fffb", "2b4be7f19ee27bbf30c667b642d5f4aa69fd169872f8fc3059c08ebae2eb19e7", "00a4b2856bfec510abab89753fac1ac0e1112364e7d250545963f135f2a33188ed"},
		{[]uint32{0}, "8b59aa11380b624e81507a27fedda59fea6d0b779a778918a2fd3590e16e9c69", "68e0fe46dfb67e368c75379acec591dad19df3cde26e63b93a8e704f1dade7a3", "008c8a13df77a28f3445213a0f432fde644acaa215fc72dcdf300d5efaa85d350c"},
		{[]uint32{0, 1}, "a320425f77d1b5c2505a6b1b27382b37368ee640e3557c315416801243552f14", "b1d0bad404bf35da785a64ca1ac54b2617211d2777696fbffaf208f746ae84f2", "001932a5270f335bed617d5b935c80aedb1a35bd9fc1e31acafd5372c30f5c1187"},
		{[]uint32{0, 1, 2}, "2e69929e00b5ab250f49c3fb1c12f252de4fed2c1db88387094a0f8c4c9ccd6c", "92a5b23c0b8a99e37d07df3fb9966917f5d06e02ddbd909c7e184371463e9fc9", "00ae98736566d30ed0e9d2f4486a64bc95740d89c7db33f52121f8ea8f76ff0fc1"},
		{[]uint32{0, 1, 2, 2}, "8f6d87f93d750e0efccda017d662a1b31a266e4a6f5993b15f5c1f07f74dd5cc", "30d1dc7e5fc04c31219ab25a27ae00b50f6fd66622f6e9c913253d6511d1e662", "008abae2d66361c879b900d204ad2cc4984fa2aa344dd7ddc46007329ac76c429c"},
		{[]uint32{0, 1, 2, 2, 1000000000}, "68789923a0cac2cd5a29172a475fe9e0fb14cd6adb5ad98a3fa70333e7afa230", "8f94d394a8e8fd6b1bc2f3f49f5c47e385281d5c17e65324b0f62483e37e8793", "003c24da049451555d51a7014a37337aa4e12d41e485abccfa46b47dfb2af54b7a"},
	}
	for _, x := range vs {
		n := refDerive(seed, x.path)
		if hex.EncodeToString(n.chain[:]) != x.chain || hex.EncodeToString(n.key[:]) != x.priv ||
			"00"+hex.EncodeToString(n.pub()) != x.pub {
			return fmt.Errorf("SLIP-0010 vector 1, path %v: got chain %x key %x pub 00%x", x.path, n.chain, n.key, n.pub())
		}
	}
	// BIP-39 (Trezor vectors, passphrase "TREZOR") and the well-known empty-passphrase seed
	if len(wordlists.English) != 2048 || wordlists.English[0] != "abandon" || wordlists.English[2047] != "zoo" {
		return fmt.Errorf("unexpected BIP-39 word list")
	}
	bv := []struct{ ent, mn, pass, seed string }{
		{"00000000000000000000000000000000", "abandon abandon abandon abandon abandon abandon abandon abandon abandon abandon abandon about", "TREZOR",
			"c55257c360c07c72029aebc1b53c05ed0362ada38ead3e3e9efa3708e53495531f09a6987599d18264c1e1c92f2cf141630c7a3c4ab7c81b2f001698e7463b04"},
		{"00000000000000000000000000000000", "abandon abandon abandon abandon abandon abandon abandon abandon abandon abandon abandon about", "",
			"5eb00bbddcf069084889a8ab9155568165f5c453ccb85e70811aaed6f6da5fc19a5ac40b389cd370d086206dec8aa6c43daea6690f20ad3d8d48b2d2ce9e38e4"},
		{"7f7f7f7f7f7f7f7f7f7f7f7f7f7f7f7f", "legal winner thank year wave sausage worth useful legal winner thank yellow", "TREZOR",
			"2e8905819b8723fe2c1d161860e5ee1830318dbf49a83bd451cfb8440c28bd6fa457fe1296106559a3c80937a1c1069be3a3a5bd381ee6260e8d9739fce1f607"},
		{"ffffffffffffffffffffffffffffffff", "zoo zoo zoo zoo zoo zoo zoo zoo zoo zoo zoo wrong", "TREZOR",
			"ac27495480225222079d7be181583751e86f571027b0497b5b5d11218e0a8a13332572917f0f8e5a589620c6f15b11c61dee327651a14c34e18231052e48c069"},
		{"000000000000000000000000000000000000000000000000", "abandon abandon abandon abandon abandon abandon abandon abandon abandon abandon abandon abandon abandon abandon abandon abandon abandon agent", "", ""},
		{"0000000000000000000000000000000000000000000000000000000000000000", "abandon abandon abandon abandon abandon abandon abandon abandon abandon abandon abandon abandon abandon abandon abandon abandon abandon abandon abandon abandon abandon abandon abandon art", "", ""},
		{"ffffffffffffffffffffffffffffffffffffffffffffffffffffffffffffffff", "zoo zoo zoo zoo zoo zoo zoo zoo zoo zoo zoo zoo zoo zoo zoo zoo zoo zoo zoo zoo zoo zoo zoo vote", "", ""},
	}
	for _, x := range bv {
		if got := refMnemonic(unhex(x.ent)); got != x.mn {
			return fmt.Errorf("BIP-39 mnemonic of %s: got %q", x.ent, got)
		}
		if x.seed != "" {
			if got := hex.EncodeToString(refSeed(x.mn, x.pass)); got != x.seed {
				return fmt.Errorf("BIP-39 seed of %q/%q: got %s", x.mn, x.pass, got)
			}
		}
	}
	// Zenon SDK documentation example (mnemonic -> m/44'/73404'/0' private key and address
	// z1qqjnwjjpnue8xmmpanz6csze6tcmtzzdtfsww7): ties path constant and address rule to the ecosystem
	zn := refDerive(refSeed("route become dream access impulse price inform obtain engage ski believe awful absent pig thing vibrant possible exotic flee pepper marble rural fire fancy", ""), zenonPath(0))
	if za := refAddress(zn.pub()); hex.EncodeToString(zn.key[:]) != "d6b01f96b566d7df9b5b53b1971e4baeb74cc64167a9843f82d04b2194ca4863" ||
		hex.EncodeToString(za[:]) != "0025374a419f32736f61ecc5ac4059d2f1b5884d" {
		return fmt.Errorf("Zenon SDK example: got key %x address %x", zn.key, za)
	}
	// SHA3-256 (FIPS 202 examples)
	if h := sha3.Sum256(nil); hex.EncodeToString(h[:]) != "a7ffc6f8bf1ed76651c14756a061d662f580ff4de43b49fa82d80a4b80f8434a" {
		return fmt.Errorf("sha3-256 of empty input")
	}
	if h := sha3.Sum256([]byte("abc")); hex.EncodeToString(h[:]) != "3a985da74fe225b2045c172d6bd390bd855f086e3e9d525b46bfe24511431532" {
		return fmt.Errorf("sha3-256 of abc")
	}
	// GCM reference: seal/open are inverse and bound to the additional data
	key := bytes.Repeat([]byte{7}, 32)
	nonce := bytes.Repeat([]byte{9}, 12)
	ct := refSeal(key, nonce, []byte("0123456789abcdef"))
	if p, err := refOpen(key, nonce, ct); err != nil || string(p) != "0123456789abcdef" {
		return fmt.Errorf("GCM reference round trip")
	}
	if _, err := refGCM(key).Open(nil, nonce, ct, nil); err == nil {
		return fmt.Errorf("GCM reference ignores additional data")
	}
	return nil
}
