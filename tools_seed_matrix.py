#!/usr/bin/env python3
"""Runs the property's own check (and the other checks known to see the change) against stored seeded changes.

usage: tools_seed_matrix.py [--tier quick|thorough] [--par N] [ids...]     e.g. tools_seed_matrix.py C02-1 C14-1
Each change is applied in its own scratch worktree of /repo's HEAD (/tmp/sm-<id>), the checks are built against that
worktree (VERIF_ALT_REPO: outputs under /verif/.alt/, evidence/ and out/ are not touched), the worktree is removed.
Results go to /verif/seeded/results.json (merged) and into each meta.json.
"""
import json, os, re, subprocess, sys
from concurrent.futures import ThreadPoolExecutor

EXTRA = {  # other checks that also see the change (recorded, not required)
    "C01-1": ["C04"], "C02-1": ["C06"], "C02-2": ["C14"], "C04-1": ["C03"], "C05-2": ["C06"], "C11-1": ["C06"],
    "C13-1": ["C03"], "C16-2": ["C06"],
    "C01-3": ["C03"], "C02-4": ["C07"], "C06-3": ["C07"], "C06-4": ["C08"], "C04-3": ["C03"],
    "C13-3": ["C03"], "C12-3": ["C10"], "C18-3": ["C13"],
}


def run(cmd, **kw):
    return subprocess.run(cmd, shell=True, text=True, capture_output=True, **kw)


def one(mid, tier):
    patch = f"/verif/seeded/{mid}/patch.diff"
    pid = mid.split("-")[0]
    wt = f"/tmp/sm-{mid}"
    run(f"git -C /repo worktree remove --force {wt}")
    a = run(f"git -C /repo worktree add -q --detach {wt} HEAD && git -C {wt} apply {patch}")
    out = []
    if a.returncode != 0:
        print(mid, "patch does not apply:", a.stderr.strip()[:200], flush=True)
    else:
        for chk in [pid] + EXTRA.get(mid, []):
            r = run(f"cd /verif && VERIF_ALT_REPO={wt} ./check {chk} --tier {tier}")
            m = re.search(r"^VIOLATION property=(\S+) replay=(\S+)\n\s+key=(\S+) test=(\S+)", r.stdout, re.M)
            entry = {"check": chk, "tier": tier, "exit": r.returncode, "caught": r.returncode == 1 and m is not None,
                     "key": m.group(3) if m else "", "test": m.group(4) if m else ""}
            out.append(entry)
            print(mid, chk, "exit", r.returncode, entry["key"], flush=True)
    run(f"git -C /repo worktree remove --force {wt}; rm -rf /verif/.alt/sm-{mid}")
    return mid, out


def main():
    args = sys.argv[1:]
    tier, par = "quick", 2
    while args and args[0].startswith("--"):
        if args[0] == "--tier":
            tier = args[1]
        elif args[0] == "--par":
            par = int(args[1])
        args = args[2:]
    ids = args or sorted(d for d in os.listdir("/verif/seeded") if os.path.isdir("/verif/seeded/" + d))
    ids = [i for i in ids if os.path.exists(f"/verif/seeded/{i}/patch.diff")]
    rp = "/verif/seeded/results.json"
    with ThreadPoolExecutor(max_workers=par) as ex:
        for mid, out in ex.map(lambda i: one(i, tier), ids):
            if not out:
                continue
            results = json.load(open(rp)) if os.path.exists(rp) else {}
            results[mid] = out
            json.dump(results, open(rp, "w"), indent=1, sort_keys=True)
            mp = f"/verif/seeded/{mid}/meta.json"
            if os.path.exists(mp):
                meta = json.load(open(mp))
                meta["caught_by"] = out
                json.dump(meta, open(mp, "w"), indent=1)


if __name__ == "__main__":
    main()
