#!/usr/bin/env python3
"""Rewrites the table of DESIGN.md section 10.5 (between the markers) from /verif/seeded/*/meta.json."""
import json, os, re
rows = []
for d in sorted(os.listdir("/verif/seeded")):
    mp = f"/verif/seeded/{d}/meta.json"
    if not os.path.exists(mp):
        continue
    m = json.load(open(mp))
    cb = m.get("caught_by", [])
    own = [c for c in cb if c["check"] == m["property"]]
    oth = [c for c in cb if c["check"] != m["property"] and c.get("caught")]
    def fmt(c):
        return f"{c['check']} `{c['key']}`" if c.get("caught") else f"{c['check']}: not caught (exit {c['exit']})"
    cell = "; ".join(fmt(c) for c in own) or "not run"
    if oth:
        cell += "; also " + "; ".join(fmt(c) for c in oth)
    if m.get("neutralised_on_head"):
        cell += " — neutralised on HEAD, see meta.json"
    rows.append(f"| {d} | {m['breaks']} | {m['needs_to_manifest']} | {cell} |")
table = "| change | what it breaks | what it needs | quick tier of the checks (scratch worktree = HEAD + change) |\n|---|---|---|---|\n" + "\n".join(rows)
p = "/verif/DESIGN.md"
s = open(p).read()
a, b = "<!-- seeded-table-begin -->", "<!-- seeded-table-end -->"
if a in s:
    s = s[:s.index(a) + len(a)] + "\n" + table + "\n" + s[s.index(b):]
    open(p, "w").write(s)
    print("table rewritten:", len(rows), "rows")
else:
    print(table)
