#!/bin/sh
# usage: tools_seed_try.sh <patch.diff> <tier> <check-ID...>   runs the checks against /repo's HEAD + patch in a scratch worktree
P=$1; TIER=$2; shift 2
TAG=st-$(echo "$P" | md5sum | cut -c1-8)
WT=/tmp/$TAG
git -C /repo worktree remove --force $WT >/dev/null 2>&1
git -C /repo worktree add -q --detach $WT HEAD || exit 1
git -C $WT apply "$P" || { echo "patch does not apply"; git -C /repo worktree remove --force $WT; exit 1; }
cd /verif
for ID in "$@"; do
  VERIF_ALT_REPO=$WT ./check $ID --tier $TIER > /tmp/$TAG-$ID.txt 2>&1; rc=$?
  echo "$P vs $ID ($TIER): rc=$rc  $(grep -m1 -A2 '^VIOLATION' /tmp/$TAG-$ID.txt | tr '\n' ' ' | cut -c1-330)"
done
git -C /repo worktree remove --force $WT; rm -rf /verif/.alt/$TAG
