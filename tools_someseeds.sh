#!/bin/sh
# usage: tools_someseeds.sh <tier> <seed> <ID...>   like tools_allseeds.sh for the given checks only
TIER=$1; S=$2; shift 2
cd "$(dirname "$0")"
HERE=$(pwd)
mkdir -p $HERE/out/allseeds
for ID in "$@"; do
  t0=$(date +%s)
  VERIF_SEED=$S ./check $ID --tier $TIER > $HERE/out/allseeds/${ID}_${TIER}_$S.txt 2>&1; rc=$?
  t1=$(date +%s)
  echo "seed=$S $ID rc=$rc $((t1-t0))s $(grep -c VIOLATION $HERE/out/allseeds/${ID}_${TIER}_$S.txt) violations $(grep -m1 'tier=' $HERE/out/allseeds/${ID}_${TIER}_$S.txt | cut -c1-120)"
  if [ $rc != 0 ]; then mkdir -p $HERE/out/allseeds/keep_${ID}_$S; cp -r $HERE/out/$ID/*.json $HERE/out/allseeds/keep_${ID}_$S/ 2>/dev/null; fi
done
