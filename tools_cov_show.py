#!/usr/bin/env python3
"""usage: tools_cov_show.py <profile> <file-suffix> [from-line to-line]  -- prints the source with uncovered statements marked '!!'"""
import sys
prof, suf = sys.argv[1], sys.argv[2]
lo, hi = (int(sys.argv[3]), int(sys.argv[4])) if len(sys.argv) > 4 else (1, 10**9)
unc, cov = set(), set()
for l in open(prof):
    if l.startswith("mode:"): continue
    k, n = l.rsplit(" ", 1)
    f, rng = k.rsplit(":", 1)
    if not f.endswith(suf): continue
    rng = rng.split(" ")[0]
    a, b = rng.split(",")
    l1, l2 = int(a.split(".")[0]), int(b.split(".")[0])
    (cov if int(n) else unc).update(range(l1, l2 + 1))
src = open("/repo/" + suf).read().splitlines()
for i, line in enumerate(src, 1):
    if lo <= i <= hi:
        mark = "!!" if (i in unc and i not in cov) else "  "
        print(f"{mark}{i:5d} {line}")
