#!/usr/bin/env python3
"""Copies verified seeded changes from /tmp/seed-<ID>/<k>/ into /verif/seeded/<ID>-<k>/ and writes meta.json.

usage: tools_seed_store.py            (all entries of INDEX whose verification logs exist)
The verification logs (verify_without.txt / verify_with.txt / verify_suite.txt) are written by
tools_seed_verify.sh in a scratch worktree; an entry is stored only if the demo passed without the change,
failed with it, and the full suite passed with it (the wall-clock benchmark re-run alone when the machine was loaded).
"""
import json, os, re, shutil, subprocess, sys

# id -> (breaks, needs)
INDEX = {
 "C01-1": ("verifier looks up 'already received' in the acknowledged momentum instead of the account chain: a send is received twice, balances exceed supply",
           "a second receive block for the same send published before the first one is confirmed (or acknowledging a momentum older than the first receive)"),
 "C01-2": ("IssueToken accepts a non-mintable token with TotalSupply > MaxSupply",
           "an IssueToken call with isMintable=false and totalSupply above maxSupply"),
 "C02-1": ("account pool keeps pending blocks of untouched accounts across a momentum rollback; the pillar then confirms a block acknowledging an abandoned momentum and every other node refuses its momentum",
           "a producing node with a pooled block acknowledging momentum M, a reorganisation removing M, the node elected before the block is displaced"),
 "C02-2": ("InsertChain inserts the account blocks of a delivered momentum with the non-forced pool insert: a node holding a locally preferred sibling refuses the momentum",
           "an account-chain fork (two signed blocks at one height), the sibling gossiped to the node before the momentum confirming the other one"),
 "C03-1": ("a contract receive may acknowledge a later momentum than the one confirming its send",
           "a confirmed, not yet received send to a contract while later momentums exist (pillar stopped after its momentum), receive acknowledging the later momentum"),
 "C03-2": ("blocks are executed on the pool frontier instead of on their stated predecessor: a competing block overspends",
           "a block forking below pooled blocks that raised the balance, spending the frontier balance"),
 "C04-1": ("contract inbox: 'nothing to receive' decided on the inbox size, a drained inbox accepts any from-hash: a send is received twice",
           "a contract whose inbox is drained, a replayed (regenerated) receive of an already received send"),
 "C04-2": ("user receive of a token-less send returns before the received marker is written: it can be received again and again",
           "a send with the zero token standard and its receive published twice"),
 "C05-1": ("momentum verifier accepts a momentum with the timestamp of its parent", "a momentum re-timed to its parent's timestamp and re-signed by the pillar elected for that slot"),
 "C05-2": ("proof momentum of a tick memoised by tick number and not invalidated on rollback: schedule computed from the abandoned branch",
           "a reorganisation below the proof momentum of a tick whose election the node already computed (branches spanning more than one tick)"),
 "C06-1": ("account pool drops only the accounts of the deleted momentum on rollback", "a reorganisation on a node with pooled blocks of accounts not touched by the removed momentums"),
 "C06-2": ("stored consensus period points returned without comparing their end hash with the chain", "a reorganisation across the end of a finished tick whose point was stored, then consensus statistics read"),
 "C07-1": ("undo overlay: a later delete record overrides an earlier value record when building a historical view", "key written at X, overwritten at X+1, deleted at X+2 (or similar), view at X read"),
 "C07-2": ("rollback rewinds cached undo overlays instead of dropping them", "a view cached before a rollback, commits on another branch, the same view read again"),
 "C08-1": ("commit batch flushed in pieces above 32 KiB: a crash between pieces leaves the frontier pointer old with new values in place", "a momentum whose batch exceeds 32 KiB (about 20 account blocks) and a process death between the pieces"),
 "C08-2": ("tombstones written as immediate deletes bypassing the atomic batch", "a process death inside a rollback (or a commit that deletes keys) after the first early delete"),
 "C09-1": ("accelerator UpdatePhase on a project without phases indexes PhaseIds[-1]: panic in the receive", "the owner of a project that has no phase yet sends UpdatePhase"),
 "C09-2": ("liquidity reward distribution divides by a zero cumulated stake: panic in Update", "a staking token without stake during a whole epoch, a stake received after the epoch's end and before its Update"),
 "C10-1": ("pillar Revoke pays the collateral to the reward-withdraw address instead of the stake address", "a pillar whose reward address differs from its owner, revoked inside a revoke window"),
 "C10-2": ("plasma CancelFuse deletes the entry only when the beneficiary's total reaches zero: the entry can be cancelled again", "a beneficiary with two fusions, one of them matured and cancelled twice"),
 "C11-1": ("stored epoch point returned before the end-block comparison: rewards computed from the abandoned branch's statistics", "a reorganisation with its fork point inside an epoch whose point the node already stored, branches differing in that epoch, then the pillar Update of that epoch"),
 "C11-2": ("sentinel reward: revoked entries skipped when counting eligible sentinels but still credited: more than the epoch's emission credited", "two sentinels, one revoked in the last tenth of the epoch or before its Update"),
 "C12-1": ("PoW target computed through int64: difficulty >= 2^63 honoured with any nonce", "a block with difficulty in [2^63, 2^64) and an arbitrary nonce"),
 "C12-2": ("fused plasma checked against the base cost not covered by PoW instead of the declared FusedPlasma", "a block over-declaring FusedPlasma (more than the account owns / than is left after unconfirmed blocks)"),
 "C13-1": ("negative amounts pass the verifier: the JSON form of a signed transfer with the sign flipped has the same hash and the opposite effect", "a block delivered through the JSON-RPC publication call with a negative amount string"),
 "C13-2": ("BasePlasma and TotalPlasma swapped when decoding the stored (protobuf) block", "a block whose used plasma differs from its base plasma, decoded from storage / re-serialised by the pool"),
 "C14-1": ("account pool rebuild keeps a stale manager on its error path", "the pillar's own momentum built, a competing block replacing a block it confirms (plus a child) before the momentum is inserted"),
 "C14-2": ("unlocked fast path in accountPool.GetPatch: data race with RPC readers", "GetPatch on the inserting goroutine overlapping an RPC query for an account without manager (race detector)"),
 "C15-1": ("discovery packet length check off by one: index out of range on a 97-byte datagram", "a datagram of exactly hash+signature length with a matching hash and a recoverable signature"),
 "C15-2": ("downloader deliveries gated on the cancel channel instead of the synchronising flag: the second unsolicited delivery after a successful sync blocks the peer's message loop forever", "a completed sync, no sync running, two unsolicited BlockHashes/Blocks messages"),
 "C16-1": ("rollback window measured from the first replaced momentum: a fork linking 31 heights below the frontier is adopted", "a valid strictly longer side chain linking exactly 31 heights below the frontier"),
 "C16-2": ("account pool survives a momentum rollback; a pooled block verified on the old fork is taken as applied for the side chain", "a pooled block acknowledging the node's own branch, a longer side chain delivered, none of the removed momentums touching the block's account"),
 "C17-1": ("IsSporkActive leaves the loop at the first not-yet-enforced spork (break instead of continue)", "an enforced spork S and another created / pending spork whose id sorts before S, then a call gated by S"),
 "C17-2": ("spork status cached by acknowledged height without the momentum hash and without invalidation on rollback", "two branches enforcing a spork at different heights, gated blocks evaluated on the first branch before the reorganisation"),
 "C18-1": ("GetAccountBlocksByPage does not clamp start height 0: the oldest page is answered with an error", "(pageIndex+1)*pageSize == accountHeight+1 exactly"),
 "C18-2": ("a JSON-RPC request that is literally null yields a nil message which is dereferenced", "a non-batched request whose body is null"),
 "C19-1": ("derivation path regex lost its end anchor: non-hardened paths are derived as if hardened", "a caller-supplied path with a segment lacking the apostrophe"),
 "C19-2": ("KeyFile.Write no longer truncates: a shorter key file written over a longer one cannot be read back", "a key file written to a path that already holds a longer file"),
 "C20-1": ("plasma genesis: per-beneficiary fused sum not stored back: genesis hash depends on the order of the fusion list and the state differs from the validated configuration", "two fusion entries naming the same beneficiary with different amounts"),
 "C20-2": ("start-up check compares the genesis momentum's ChangesHash instead of its Hash", "an existing database restarted with a configuration differing only in extra data / genesis timestamp"),
 # ---- second round (authors were told what the first round had produced) ----
 "C01-3": ("verifier lost the negative-amount branch: a transfer published over JSON-RPC with its amount negated (same hash and signature) credits the sender and the receiver",
           "ledger.publishRawTransaction with \"amount\":\"-N\" (JSON keeps the sign, the wire formats cannot)"),
 "C01-4": ("CheckGenesis accepts a configuration whose balances add up to less than the declared total supply (one-sided comparison)",
           "a custom genesis file handing out less than a token's totalSupply"),
 "C02-3": ("ExpectedNum and FactualNum swapped when a persisted consensus point is decoded: a node restarted on its consensus database computes other pillar statistics and refuses the momentum carrying the epoch's reward update",
           "restart inside an epoch after a stored period in which a pillar missed a slot, then that epoch's reward update"),
 "C02-4": ("rollback purges only the near view cache; the far cache (views more than 360 versions behind the frontier) survives a branch switch",
           "a view more than 360 momentums deep read before a branch switch and read again afterwards, the new branch touching a key untouched since"),
 "C03-3": ("user receive blocks may carry batched (descendant) blocks: an unsigned, never executed send lands on the account chain",
           "a user receive with a well-formed batched block, hashed over it and signed by the owner"),
 "C03-4": ("a receive by a non-addressee (allowed below the enforcement height) skips the already-received check",
           "a network below ReceiverMismatchEnforcementHeight, an account receiving a send not addressed to it a second time"),
 "C04-3": ("receiver check tests the send's addressee for being a contract instead of the receiver: a user can receive a send addressed to a contract, which the contract also receives",
           "a hand-made user receive of a send addressed to an embedded contract"),
 "C05-3": ("momentums generated by the node itself skip verification (including the elected-producer check) before insertion and broadcast",
           "a stale producer event: a pillar of the node told to produce for a slot it is not elected for"),
 "C05-4": ("election permutations drawn from one shared rand.Rand: concurrent cache-missing elections corrupt each other",
           "two elections that both miss the cache overlapping (insert goroutine, consensus loop, RPC)"),
 "C06-3": ("rollback keeps cached view overlays computed while the first abandoned momentum was the frontier (off by one in a selective purge)",
           "a view at or below the fork point last read at the first abandoned momentum, read again after the switch"),
 "C06-4": ("the undo patch of a rollback is applied outside the write batch", "a process death inside a rollback, then restart (crash-free runs are identical)"),
 "C07-3": ("a refused stale-parent commit still overwrites the stored redo/undo records of the real commit at that height",
           "Add on a known stale parent, then a historical view below it not cached yet, a Pop through that height, or GetPatch"),
 "C07-4": ("the scan of a delete-enabled store skips only one tombstone in a row", "two deleted keys adjacent in key order inside the scanned prefix"),
 "C08-3": ("rollback deletes the stored redo/undo patches of the height in its own write before applying the undo in the batch", "a process death between the two writes of a rollback"),
 "C08-4": ("commit stores the undo patch with a separate write after the atomic batch", "a process death between the commit batch and the undo write"),
 "C09-3": ("token supply cap off by one: maxSupply = 2^255 accepted; IssueToken's payout exceeds what the verifier allows for a send, the receive fails with an internal error (no refund) and the token contract's inbox is wedged",
           "IssueToken with totalSupply = maxSupply = 2^255 exactly"),
 "C09-4": ("a contract's data-less send to another contract is no longer validated: an HTLC payout to an embedded address lands in that contract's inbox without a method; its receive panics",
           "htlc.Create with an embedded contract as hash-lock beneficiary, then Unlock before expiry"),
 "C10-3": ("sentinel registration accepts the collateral amount in any token; the entry records 5000 ZNN which Revoke pays out", "a Register block paying 5000e8 of another token from an account with a sufficient QSR deposit"),
 "C10-4": ("pillar lock window compared against the revoke-window length: collateral released earlier than the lock allows", "lock and revoke windows of different lengths, a Revoke between the two positions of the cycle"),
 "C11-3": ("(same slip as C02-3, demonstrated on rewards) ExpectedNum / FactualNum swapped when a consensus point is decoded: a restarted node credits other pillar rewards, above the epoch's emission",
           "a pillar that missed a slot, a restart before that epoch's pillar Update"),
 "C11-4": ("liquidity over-distribution guard uses && instead of ||: shares of one coin summing to 10000 only modulo 2^32 credit far more than the emission",
           "the administrator sets wrapped shares for one coin, a staker of the over-weighted token, an epoch Update"),
 "C12-3": ("plasma.Fuse validation uses && instead of ||: a Fuse paid in another token is accepted and gives plasma", "a Fuse call carrying ZNN or another token"),
 "C12-4": ("base cost taken from the block's own BasePlasma field (outside the hash) when non-zero", "a block from a peer / over RPC stating a small basePlasma and paying less than its true cost"),
 "C13-3": ("signature verification looks at the first 64 bytes only: a signature followed by more bytes verifies", "a relayed variant of an unconfirmed block with bytes appended to its signature"),
 "C13-4": ("pillar Delegate no longer rewrites its call data to the canonical packing", "a Delegate call with non-canonical call data (offsets, padding, trailing bytes) hashed and signed over those bytes"),
 "C14-3": ("hash tie-break applied even when the plasma ratios differ: no antisymmetric winner, nodes keep what they saw first", "two competing blocks, the higher-ratio one with the larger hash arriving second"),
 "C14-4": ("the pool's per-account version manager applies a new block in place on its parent's state", "a reader holding a view across an insertion, or any fork replacement"),
 "C15-3": ("GetBlocks handler stops gathering at MaxHashFetch (512) instead of MaxBlockFetch (128): one reply carries up to 512 momentums", "a GetBlocksMsg resolving to more than 128 momentums (129+ known hashes, or one known hash repeated)"),
 "C15-4": ("downloader ties a hash pack to the cycle if its sender is any registered peer: an unsolicited BlockHashesMsg from a third peer during the hash-download phase gets the honest sync peer dropped",
           "two registered peers, a cycle in its hash-download phase, the third peer's pack arriving in that window"),
 "C16-3": ("off by one in the restore decision added by d61542a: a failing side chain whose verified part is exactly as long as what it replaced is kept", "a fork at depth d, the delivered chain valid for exactly d momentums, momentum d+1 invalid"),
 "C16-4": ("momentum verifier no longer requires the delivered account blocks to be exactly the content: extra individually valid blocks are accepted and pooled", "a delivered momentum carrying an additional valid block of an untouched account"),
 "C17-3": ("unimplemented-spork halt check uses < instead of <=: the node keeps running at the enforcement height itself", "an activated spork the node does not implement, frontier exactly at its enforcement height (running or restarted there)"),
 "C17-4": ("a pending activation can be repeated: the enforcement height moves", "ActivateSpork sent again and received within the 6 momentums before enforcement"),
 "C18-3": ("JSON parse of a block with N descendant blocks yields 2N entries, the first N nil", "the API-level parse of a contract receive that generated sends"),
 "C18-4": ("HTTP body no longer limited when no length is declared: a chunked request of any size is read and executed", "a request over 5 MiB with Transfer-Encoding: chunked"),
 "C19-3": ("cipher text decrypted in place: the in-memory key file is overwritten by Decrypt", "the same KeyFile object decrypted twice, after a wrong password, or written back after use"),
 "C19-4": ("password truncated to 128 bytes before key derivation", "two passwords of at least 128 bytes sharing their first 128 bytes"),
 "C20-3": ("spork contract always counted as already built: a balance declared for it is validated but no genesis block is built when the configuration has no spork section", "no SporkConfig and a GenesisBlocks entry for the spork contract address"),
 "C20-4": ("'found' flag hoisted out of the undeclared-token loop: whether a balance in an undeclared token is refused depends on map iteration order", "a balance in a token without TokenInfo next to declared tokens"),
}

# round 3 onwards: the author's agent.json (breaks / needs / place_as / run_args) beside the patch, reviewed before storing
import glob
AGENT = {}
for ap in glob.glob("/tmp/seed-C*/*/agent.json"):
    pid_, k_ = ap.split("/")[2][5:], ap.split("/")[3]
    try:
        a = json.load(open(ap))
    except Exception as e:
        print("bad agent.json", ap, e)
        continue
    if f"{pid_}-{k_}" not in INDEX:
        INDEX[f"{pid_}-{k_}"] = (a["breaks"], a["needs"])
        AGENT[f"{pid_}-{k_}"] = a

CAUGHT = json.load(open("/verif/seeded/results.json")) if os.path.exists("/verif/seeded/results.json") else {}


def verified(src):
    def rd(n):
        p = os.path.join(src, n)
        return open(p, errors="replace").read() if os.path.exists(p) else None
    wo, wi, su = rd("verify_without.txt"), rd("verify_with.txt"), rd("verify_suite.txt")
    if wo is None or wi is None or su is None:
        return None, "no verification logs"
    vl = rd("verify.log") or ""
    if len(re.findall(r"^rc=\d+", vl, re.M)) < 3:
        return None, "verification still running"
    ok_wo = re.search(r"^ok\s", wo, re.M) is not None and "FAIL" not in wo
    fail_wi = "FAIL" in wi or "panic:" in wi or "DATA RACE" in wi
    fails = re.findall(r"^--- FAIL: (\S+)", su, re.M)
    pk_fail = re.findall(r"^FAIL\s+(\S+)", su, re.M)
    flaky = {"TestSimple_MomentumInsertionBenchmark": "benchmark re-run alone with the patch", "TestPack_SimpleTest": "TestPack_SimpleTest (a randomized test"}
    bench_only = bool(fails) and all(f in flaky and flaky[f] in su for f in fails)
    suite_ok = (not fails and not pk_fail) or (bench_only and su.rstrip().endswith("rc=0"))
    note = ""
    if bench_only:
        note = ("the full-suite run failed only in %s: the wall-clock benchmark (limit 1500 ms, fails on a loaded machine) / the repository's "
                "randomized packing test (fails when it draws a zero amount); re-run alone with the change applied they pass" % ", ".join(sorted(set(fails))))
    if not (ok_wo and fail_wi and suite_ok):
        return False, f"demo without change ok={ok_wo}, demo with change fails={fail_wi}, suite ok={suite_ok} (fails: {fails} {pk_fail})"
    return True, note


def main():
    os.makedirs("/verif/seeded", exist_ok=True)
    head = subprocess.check_output(["git", "-C", "/repo", "rev-parse", "--short", "HEAD"], text=True).strip()
    for mid, (breaks, needs) in sorted(INDEX.items()):
        pid, k = mid.split("-")
        src = f"/tmp/seed-{pid}/{k}"
        if not os.path.isdir(src):
            continue
        ok, note = verified(src)
        if ok is None:
            print(mid, "skipped:", note)
            continue
        if not ok:
            print(mid, "NOT CONFIRMED:", note)
            continue
        dst = f"/verif/seeded/{mid}"
        os.makedirs(dst, exist_ok=True)
        shutil.copy(os.path.join(src, "patch.diff"), os.path.join(dst, "patch.diff"))
        demos = [f for f in os.listdir(src) if f.endswith("_test.go")]
        for f in demos:
            shutil.copy(os.path.join(src, f), os.path.join(dst, f))
        for f in ("DEMO.md", "meta.md"):
            if os.path.exists(os.path.join(src, f)):
                shutil.copy(os.path.join(src, f), os.path.join(dst, "author_" + f))
        line = None
        for lf in ("/tmp/verify_list1.txt", "/tmp/verify_list2.txt", "/tmp/verify_list4.txt", "/tmp/verify_list5.txt", "/tmp/verify_list6.txt"):
            if os.path.exists(lf):
                for l in open(lf):
                    p = l.split()
                    if len(p) > 3 and p[0] == pid and p[1] == k:
                        line = p
        if line is None and mid in AGENT:
            line = [pid, k, AGENT[mid]["place_as"]] + AGENT[mid]["run_args"].split()
        meta = {
            "id": mid, "property": pid, "breaks": breaks, "needs_to_manifest": needs,
            "patch": "patch.diff (git -C /repo apply /verif/seeded/%s/patch.diff; undo with git -C /repo checkout -- .)" % mid,
            "demonstration": {"files": demos,
                              "place_as": line[2] if line else None,
                              "run": ("go test -vet=off -count=1 " + " ".join(line[3:])) if line else None,
                              "note": "copy the file to place_as inside a checkout of the repository, then run"},
            "confirmed_in_scratch_worktree": {
                "base_commit": head,
                "ran": ["demonstration without the change: passes", "demonstration with the change: fails",
                        "go test -vet=off -count=1 -timeout 25m ./... with the change: passes"],
                "note": note},
            "caught_by": CAUGHT.get(mid, []),
        }
        json.dump(meta, open(os.path.join(dst, "meta.json"), "w"), indent=1)
        print(mid, "stored", "(caught by: %s)" % ", ".join(c["check"] + ":" + c["key"] for c in meta["caught_by"]) if meta["caught_by"] else "")


if __name__ == "__main__":
    main()
