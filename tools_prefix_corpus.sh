#!/bin/sh
# usage: tools_prefix_corpus.sh <ID> <fix-commit> <keypattern> <outname>
# Re-creates the pre-fix version of the files touched by <fix-commit> in /repo's working tree, runs the quick
# check, copies the replay file of the first violation whose key matches <keypattern> to the corpus, restores /repo.
ID=$1; FIX=$2; PAT=$3; OUT=$4
cd /repo || exit 1
for f in $(git show --name-only --format= $FIX); do git show $FIX~1:$f > $f; done
cd /verif && ./check $ID > /tmp/prefix_$ID.txt 2>&1
f=$(grep -A1 "VIOLATION property=$ID" /tmp/prefix_$ID.txt | grep -B1 "key=$PAT" | grep -m1 VIOLATION | sed 's/.*replay=//')
git -C /repo checkout -- .
if [ -n "$f" ] && [ -f "$f" ]; then mkdir -p harness/corpus/$ID; cp "$f" harness/corpus/$ID/$OUT.json; echo "saved $OUT from $f"; else echo "NO MATCH for $ID $PAT"; grep "key=" /tmp/prefix_$ID.txt | sort | uniq -c | head; fi
