#!/bin/sh
# usage: tools_allseeds.sh <tier> <seed...>   runs every claimed check, prints one line per check
TIER=$1; shift
cd /verif
for S in "$@"; do
  for ID in $(python3 -c "import sys;sys.path.insert(0,'/verif');from checks_config import CHECKS;print(' '.join(sorted(CHECKS)))"); do
    t0=$(date +%s)
    VERIF_SEED=$S ./check $ID --tier $TIER > /tmp/allseeds_${ID}_$S.txt 2>&1; rc=$?
    t1=$(date +%s)
    echo "seed=$S $ID rc=$rc $((t1-t0))s $(grep -c VIOLATION /tmp/allseeds_${ID}_$S.txt) violations $(grep -m1 'tier=' /tmp/allseeds_${ID}_$S.txt | cut -c1-120)"
  done
done
