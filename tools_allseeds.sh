#!/bin/sh
# usage: tools_allseeds.sh <tier> <seed...>   runs every claimed check from the directory of this script, prints one line per check
TIER=$1; shift
cd "$(dirname "$0")"
HERE=$(pwd)
mkdir -p $HERE/out/allseeds
for S in "$@"; do
  for ID in $(python3 -c "import sys;sys.path.insert(0,'$HERE');from checks_config import CHECKS;print(' '.join(sorted(CHECKS)))"); do
    t0=$(date +%s)
    VERIF_SEED=$S ./check $ID --tier $TIER > $HERE/out/allseeds/${ID}_${TIER}_$S.txt 2>&1; rc=$?
    t1=$(date +%s)
    echo "seed=$S $ID rc=$rc $((t1-t0))s $(grep -c VIOLATION $HERE/out/allseeds/${ID}_${TIER}_$S.txt) violations $(grep -m1 'tier=' $HERE/out/allseeds/${ID}_${TIER}_$S.txt | cut -c1-120)"
    if [ $rc != 0 ]; then mkdir -p $HERE/out/allseeds/keep_${ID}_$S; cp -r $HERE/out/$ID/*.json $HERE/out/allseeds/keep_${ID}_$S/ 2>/dev/null; fi
  done
done
