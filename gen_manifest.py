#!/usr/bin/env python3
"""Regenerates MANIFEST.json from checks_config.py (run after editing the configuration)."""
import json, os, subprocess, sys
ROOT = os.path.dirname(os.path.abspath(__file__))
sys.path.insert(0, ROOT)
from checks_config import CHECKS, NOT_APPLICABLE, HOOK_COMMITS

props = [json.loads(l)["id"] for l in open(os.path.join(ROOT, "properties.jsonl"))]
# hook commits in /repo carry the subject prefix "verif hook"
HOOK_COMMITS = subprocess.run(["git", "-C", "/repo", "log", "--format=%H", "--grep=^verif hook"], stdout=subprocess.PIPE,
                              text=True).stdout.split()
checks = []
for pid in props:
    if pid not in CHECKS:
        continue
    c = CHECKS[pid]
    checks.append(dict(
        property_id=pid,
        quick_cmd="./check %s --tier quick" % pid,
        thorough_cmd="./check %s --tier thorough" % pid,
        evidence_file="/verif/evidence/%s.json" % pid,
        replay_cmd_template="./check %s --replay {path}" % pid,
        engine="harness",
        level_claimed=dict(category=c["level"], text=c["level_text"], design_ref=c.get("design_ref", "DESIGN.md section 4, " + pid)),
        level_note=c["level_note"],
        technique=c["technique"],
    ))
na = [dict(property_id=p, reason=NOT_APPLICABLE.get(p, "check not built yet in this session (planned, see DESIGN.md section 9)"))
      for p in props if p not in CHECKS]
m = dict(
    version=1,
    setup_cmd="./check --setup",
    hooks=dict(guard="verif",
               enable="go test -tags verif in /verif/harness (go.mod: replace github.com/zenon-network/go-zenon => /repo)",
               baseline_off_cmd="cd /repo && GOFLAGS=-mod=mod GOPROXY=off GOSUMDB=off GOTOOLCHAIN=local go test -vet=off -count=1 -timeout 25m ./...",
               source_commits=HOOK_COMMITS, add_only=True),
    engines=[dict(name="harness", path="harness", serves_properties=[c["property_id"] for c in checks],
                  kind_free_text="Go module: pgregory.net/rapid v1.3.0 properties (stateful and value-level) over the real node "
                                 "packages, a plain replay interpreter for recorded cases, native go fuzz targets; sharded and "
                                 "merged into evidence by ./check (python3, stdlib only)")],
    checks=checks,
    notes="DESIGN.md explains the approach; KNOWN_FINDINGS.txt lists recorded findings (known:) and repaired defects (fixed:).",
    not_applicable=na,
)
json.dump(m, open(os.path.join(ROOT, "MANIFEST.json"), "w"), indent=1)
print("MANIFEST.json: %d checks, %d not claimed" % (len(checks), len(na)))
