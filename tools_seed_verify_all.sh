#!/bin/sh
# usage: tools_seed_verify_all.sh <list-file> [parallel]   list lines: <ID> <k> <demo-dest> <go test args...>
LIST=$1; P=${2:-3}
grep -v '^#' $LIST | grep . | xargs -P $P -L 1 sh -c '/verif/tools_seed_verify.sh "$@" > /tmp/seed-$1/$2/verify.log 2>&1; echo "verified $1/$2: $(grep -c "rc=0" /tmp/seed-$1/$2/verify.log) rc=0 lines"' _
